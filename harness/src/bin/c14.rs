//! C14 driver: writes generated input sets with DltMessage::to_write, runs the real `adlt convert` binary (fresh process per
//! run, TZ=UTC) for the reference runs and for every option combination of the plan, re-reads -o files with adlt's own
//! iterator and records what it saw (line / filemsg / exit events). It decides nothing: Sel, order and completeness are
//! evaluated by TLC (spec/ConvertTrace.tla).
use adlt::dlt::{DltExtendedHeader, DltMessage, DLT_MAX_STORAGE_MSG_SIZE};
use adlt::utils::{get_dlt_message_iterator, get_new_namespace, LowMarkBufReader};
use std::io::Write;
use std::process::{Command, Stdio};
use std::sync::atomic::{AtomicUsize, Ordering};
use std::sync::Mutex;
use vh::*;

const APIDS: [&str; 7] = ["APP1", "AP2", "B", "TC", "TC1", "ATC", "XTCY"];
const CTIDS: [&str; 7] = ["CTX1", "CT2", "T", "TC", "TC1", "ATC", "XTCY"];
/// ECU ids of the patterns A / B: a 3-character id and its extension
fn ecu_name(e: u8) -> &'static str {
    if e == b'A' {
        "ECU"
    } else {
        "ECUB"
    }
}
// pairs named by the filters of the option space: make sure they occur in every input set
const HOT: [(&str, &str); 12] = [("APP1", "TC"), ("AP2", "T"), ("B", "CTX1"), ("TC", "CT2"), ("APP1", "CTX1"), ("B", "T"),
    ("TC1", "T"), ("ATC", "CT2"), ("XTCY", "TC1"), ("TC", "TC"), ("TC1", "ATC"), ("ATC", "XTCY")];
const MAX_IDX: u64 = 2147483647;

struct GenMsg {
    key: u32,
    ecu: String,
    apid: String,
    ctid: String,
    ext: bool,
    hash: u32,
}

fn msg_bytes(m: &DltMessage) -> Vec<u8> {
    let mut v = Vec::new();
    m.to_write(&mut v).unwrap();
    v
}

/// one generated input set: files in `dir`, returns (file paths, generated truth)
fn gen_set(dir: &str, shape: &Value, rng: &mut Rng) -> (Vec<String>, Vec<GenMsg>) {
    let pats: Vec<String> = shape["ecus"].as_array().unwrap().iter().map(|v| v.as_str().unwrap().to_string()).collect();
    let boots = shape["boots"].as_u64().unwrap() as usize;
    let garbage = shape["garbage"].as_bool().unwrap();
    let noext = shape["noext"].as_bool().unwrap();
    let jitter = shape["jitter"].as_bool().unwrap_or(false);
    let nf = pats.len();
    loop {
        let n = 24 + rng.below(16) as usize;
        // reboot slots per ECU
        let mut cuts: Vec<Vec<usize>> = vec![vec![0], vec![0]];
        for c in cuts.iter_mut() {
            while c.len() < boots {
                let s = 3 + rng.below(n as u64 - 6) as usize;
                if !c.contains(&s) {
                    c.push(s);
                }
            }
            c.sort();
        }
        let gaps = |t: usize| cuts.iter().map(|c| c.iter().filter(|s| **s != 0 && **s <= t).count()).sum::<usize>() as u64;
        let rx = |t: usize| BASE_US + t as u64 * 250_000 + gaps(t) * 40_000_000 + t as u64;
        // time segments: files with the same ECU pattern share the time line one after the other
        let mut seg: Vec<(usize, usize)> = vec![(0, n); nf];
        let mut pats_seen: Vec<&String> = Vec::new();
        for p in &pats {
            if pats_seen.contains(&p) {
                continue;
            }
            pats_seen.push(p);
            let mut members: Vec<usize> = (0..nf).filter(|f| &pats[*f] == p).collect();
            for i in (1..members.len()).rev() {
                members.swap(i, rng.below(i as u64 + 1) as usize);
            }
            let g = members.len();
            for (i, f) in members.iter().enumerate() {
                seg[*f] = (i * n / g, (i + 1) * n / g);
            }
        }
        let mut per_file: Vec<Vec<(DltMessage, GenMsg)>> = (0..nf).map(|_| Vec::new()).collect();
        let mut last_ids: [Option<(&str, &str)>; 2] = [None, None];
        for t in 0..n {
            let cand: Vec<usize> = (0..nf).filter(|f| seg[*f].0 <= t && t < seg[*f].1).collect();
            let f = *rng.pick(&cand);
            let pc = pats[f].as_bytes();
            let e = pc[rng.below(pc.len() as u64) as usize]; // b'A' | b'B'
            let ei = (e - b'A') as usize;
            let ecu = ecu_name(e).to_string();
            let boot_slot = *cuts[ei].iter().filter(|s| **s <= t).last().unwrap();
            let boot_start = rx(boot_slot) - 1_000_000;
            let mut x = (rx(t) - boot_start) / 100_000; // timestamp in 0.1 s
            let jittered = jitter && rng.chance(1, 3);
            if jittered {
                let d = rng.range(5, 25).min(x - 1); // a buffered message: its timestamp is up to 2.5 s older
                x -= d;
            }
            let ts = (x * 1000) as u32 + t as u32 + 1000;
            let with_ext = !(noext && rng.chance(1, 5));
            let text = format!("msg {} of {}", t, ecu);
            let m = if with_ext {
                let mut pl = Vec::new();
                pl.extend_from_slice(&0x0000_0200u32.to_le_bytes());
                pl.extend_from_slice(&((text.len() + 1) as u16).to_le_bytes());
                pl.extend_from_slice(text.as_bytes());
                pl.push(0);
                let mut m = mk_msg(0, &ecu, rx(t), ts, pl);
                let (apid, ctid) = if rng.chance(1, 2) { *rng.pick(&HOT) } else { (*rng.pick(&APIDS), *rng.pick(&CTIDS)) };
                // a buffered message usually comes from the same application as its predecessor on that ECU: the older
                // timestamp then shows up within one ECU/APID/CTID (what --debug_verify_lcs looks at)
                let (apid, ctid) = match (jittered, last_ids[ei]) {
                    (true, Some(p)) => p,
                    _ => (apid, ctid),
                };
                last_ids[ei] = Some((apid, ctid));
                m.extended_header = Some(DltExtendedHeader {
                    verb_mstp_mtin: ((rng.range(1, 6) as u8) << 4) | 0x01,
                    noar: 1,
                    apid: char4(apid),
                    ctid: char4(ctid),
                });
                m
            } else {
                let mut pl = (0x1000u32 + t as u32).to_le_bytes().to_vec();
                let k = rng.below(6) as usize;
                pl.extend_from_slice(&rng.bytes(k));
                let mut m = mk_msg(0, &ecu, rx(t), ts, pl);
                m.standard_header.htyp = 0x20 | 0x10;
                m.extended_header = None;
                m
            };
            let mut m = m;
            m.standard_header.mcnt = (t & 0xff) as u8;
            let g = GenMsg {
                key: ts,
                ecu,
                apid: m.apid().map(|a| a.to_string()).unwrap_or_default(),
                ctid: m.ctid().map(|a| a.to_string()).unwrap_or_default(),
                ext: with_ext,
                hash: hash31(&msg_bytes(&m)),
            };
            per_file[f].push((m, g));
        }
        // tied first reception times: the tied files get one extra first message each, all with the identical storage time
        let tie = shape["tie"].as_str().unwrap_or("none");
        if tie != "none" {
            let t0 = BASE_US - 500_000;
            for f in 0..nf {
                let tied = tie == "all" || pats.iter().filter(|p| **p == pats[f]).count() >= 2;
                if !tied {
                    continue;
                }
                let e = pats[f].as_bytes()[0];
                let ecu = ecu_name(e).to_string();
                let ts = 6900 + f as u32; // unique key: low digits 900.. are not used by the slots
                let text = format!("tied first msg of file {}", f);
                let mut pl = Vec::new();
                pl.extend_from_slice(&0x0000_0200u32.to_le_bytes());
                pl.extend_from_slice(&((text.len() + 1) as u16).to_le_bytes());
                pl.extend_from_slice(text.as_bytes());
                pl.push(0);
                let mut m = mk_msg(0, &ecu, t0, ts, pl);
                let apid = APIDS[f % APIDS.len()];
                let ctid = CTIDS[f % CTIDS.len()];
                m.extended_header = Some(DltExtendedHeader { verb_mstp_mtin: 0x41, noar: 1, apid: char4(apid), ctid: char4(ctid) });
                m.standard_header.mcnt = 200 + f as u8;
                let g = GenMsg {
                    key: ts,
                    ecu,
                    apid: apid.to_string(),
                    ctid: ctid.to_string(),
                    ext: true,
                    hash: hash31(&msg_bytes(&m)),
                };
                per_file[f].insert(0, (m, g));
            }
        }
        // every file non-empty, every "AB" file really contains both ECUs (else its stream would be grouped differently)
        let ok = (0..nf).all(|f| {
            !per_file[f].is_empty()
                && pats[f].bytes().all(|e| per_file[f].iter().any(|(_, g)| g.ecu == ecu_name(e)))
        });
        if !ok {
            continue;
        }
        let mut files = Vec::new();
        let mut gen = Vec::new();
        for (f, msgs) in per_file.into_iter().enumerate() {
            let path = format!("{}/f{}.dlt", dir, f);
            let mut w = std::io::BufWriter::new(std::fs::File::create(&path).unwrap());
            for (m, g) in msgs {
                if garbage && rng.chance(1, 4) {
                    let k = rng.range(1, 9) as usize;
                    let junk: Vec<u8> = rng.bytes(k).into_iter().map(|b| if b == b'D' { b'E' } else { b }).collect();
                    w.write_all(&junk).unwrap();
                }
                w.write_all(&msg_bytes(&m)).unwrap();
                gen.push(g);
            }
            if garbage && rng.chance(1, 2) {
                w.write_all(&[0x55, 0x00, 0x7f]).unwrap();
            }
            w.flush().unwrap();
            files.push(path);
        }
        return (files, gen);
    }
}

struct RunOut {
    code: i64,
    timed_out: bool,
    panicked: bool,
    stdout: String,
    stderr_tail: String,
}

fn run_adlt(adlt: &str, dir: &str, tag: &str, args: &[String]) -> RunOut {
    let so = format!("{}/so-{}.txt", dir, tag);
    let se = format!("{}/se-{}.txt", dir, tag);
    let mut child = Command::new(adlt)
        .arg("convert")
        .args(args)
        .env("TZ", "UTC")
        .env_remove("RUST_LOG")
        .env("RUST_BACKTRACE", "0")
        .current_dir(dir)
        .stdin(Stdio::null())
        .stdout(std::fs::File::create(&so).unwrap())
        .stderr(std::fs::File::create(&se).unwrap())
        .spawn()
        .expect("spawn adlt");
    let t0 = std::time::Instant::now();
    let mut timed_out = false;
    let status = loop {
        match child.try_wait().unwrap() {
            Some(s) => break Some(s),
            None => {
                if t0.elapsed().as_secs() > 180 {
                    let _ = child.kill();
                    let _ = child.wait();
                    timed_out = true;
                    break None;
                }
                std::thread::sleep(std::time::Duration::from_millis(3));
            }
        }
    };
    let stdout = String::from_utf8_lossy(&std::fs::read(&so).unwrap_or_default()).into_owned();
    let stderr = String::from_utf8_lossy(&std::fs::read(&se).unwrap_or_default()).into_owned();
    let _ = std::fs::remove_file(&so);
    let _ = std::fs::remove_file(&se);
    let tail: String = stderr.chars().rev().take(600).collect::<String>().chars().rev().collect();
    RunOut {
        code: status.and_then(|s| s.code()).map(|c| c as i64).unwrap_or(-1),
        timed_out,
        panicked: stderr.contains("panicked at"),
        stdout,
        stderr_tail: tail,
    }
}

fn strip_id(s: &str) -> String {
    s.trim_end_matches('-').to_string()
}

/// message lines of the tool's text output: index, key (= timestamp column), ecu, apid, ctid, ext; other lines are counted
fn parse_lines(out: &str) -> (Vec<Value>, u64) {
    let mut v = Vec::new();
    let mut other = 0;
    for line in out.lines() {
        let t: Vec<&str> = line.split_whitespace().collect();
        let is_msg = t.len() >= 9
            && !t[0].is_empty()
            && t[0].bytes().all(|b| b.is_ascii_digit())
            && t[1].len() == 10
            && t[1].as_bytes()[4] == b'/'
            && t[3].bytes().all(|b| b.is_ascii_digit());
        if is_msg {
            if let (Ok(index), Ok(key)) = (t[0].parse::<u64>(), t[3].parse::<u64>()) {
                v.push(json!({"index": index, "key": key, "ecu": strip_id(t[5]), "apid": strip_id(t[6]), "ctid": strip_id(t[7]), "ext": t[8] != "---"}));
                continue;
            }
        }
        if !line.trim().is_empty() {
            other += 1;
        }
    }
    (v, other)
}

fn parse_listing(out: &str) -> Vec<Value> {
    let re = regex::Regex::new(r"^LC#\s*(\d+):\s+(\S+)\s.* #\s*(\d+)").unwrap();
    out.lines()
        .filter_map(|l| re.captures(l))
        .map(|c| json!({"id": c[1].parse::<u64>().unwrap(), "ecu": strip_id(&c[2]), "n": c[3].parse::<u64>().unwrap()}))
        .collect()
}

fn reread(path: &str) -> Option<Vec<Value>> {
    let f = std::fs::File::open(path).ok()?;
    let rd = LowMarkBufReader::new(f, 512 * 1024, DLT_MAX_STORAGE_MSG_SIZE);
    let it = get_dlt_message_iterator("dlt", 0, rd, get_new_namespace(), None, None, None);
    Some(it.map(|m| json!({"ev": "filemsg", "key": m.timestamp_dms, "hash": hash31(&msg_bytes(&m))})).collect())
}

/// a padding entry: matches no message (the id universe has no id starting with Z / Y)
fn pad_filter(k: usize) -> Value {
    const B36: &[u8] = b"0123456789ABCDEFGHIJKLMNOPQRSTUVWXYZ";
    let t = |p: char| format!("{}{}{}{}", p, B36[(k / 1296) % 36] as char, B36[(k / 36) % 36] as char, B36[k % 36] as char);
    json!({"kind":"pos","en":true,"ecu":"","apid":t('Z'),"ctid":t('Y')})
}

/// the entries of the file in file order: the listed filters among n - len further ones, at the end or with the first
/// listed one at the entry straddling the given byte offset (10-byte records of the dlt-convert format)
fn file_entries(ff: &[Value], n: usize, at: &str) -> Vec<Value> {
    let npad = n.saturating_sub(ff.len());
    let mut v: Vec<Value> = (0..npad).map(pad_filter).collect();
    let pos = match at {
        "b8192" => 8192 / 10,
        "b16384" => 16384 / 10,
        "b65536" => 65536 / 10,
        _ => npad,
    }
    .min(npad);
    // first listed filter at `pos`, the others at the very end
    if let Some(first) = ff.first() {
        v.insert(pos, first.clone());
        v.extend(ff.iter().skip(1).cloned());
    }
    v
}

fn render_filter_file(path: &str, fmt: &str, ff: &[Value], eol: &str) {
    let mut s = String::new();
    if fmt == "dlf" {
        s.push_str("<?xml version=\"1.0\" encoding=\"UTF-8\"?>\n<dltfilter>\n");
        for f in ff {
            let kind = match f["kind"].as_str().unwrap() {
                "pos" => 0,
                "neg" => 1,
                _ => 2,
            };
            let g = |k: &str| f[k].as_str().unwrap().to_string();
            let en = |k: &str| if f[k].as_str().unwrap().is_empty() { 0 } else { 1 };
            s.push_str(&format!("  <filter>\n    <type>{}</type>\n    <name>f</name>\n", kind));
            for (tag, key) in [("ecuid", "ecu"), ("applicationid", "apid"), ("contextid", "ctid")] {
                if en(key) == 1 {
                    s.push_str(&format!("    <{}>{}</{}>\n", tag, g(key), tag));
                }
            }
            s.push_str(&format!(
                "    <enableregexp_Appid>0</enableregexp_Appid>\n    <enableregexp_Context>0</enableregexp_Context>\n    <enablefilter>{}</enablefilter>\n    <enableecuid>{}</enableecuid>\n    <enableapplicationid>{}</enableapplicationid>\n    <enablecontextid>{}</enablecontextid>\n    <enablepayloadtext>0</enablepayloadtext>\n    <enablecontrolmsgs>0</enablecontrolmsgs>\n  </filter>\n",
                if f["en"].as_bool().unwrap() { 1 } else { 0 },
                en("ecu"),
                en("apid"),
                en("ctid")
            ));
        }
        s.push_str("</dltfilter>\n");
        match eol {
            "crlf" => s = s.replace('\n', "\r\n"),
            "nonl" => {
                s.pop();
            }
            _ => {}
        }
    } else {
        // dlt-convert format: "APID CTID " per filter, ids filled with '-' to 4 characters; fixed 10-byte records, no lines
        for f in ff {
            for key in ["apid", "ctid"] {
                let mut id = f[key].as_str().unwrap().to_string();
                while id.len() < 4 {
                    id.push('-');
                }
                s.push_str(&id);
                s.push(' ');
            }
        }
        if eol == "trail" {
            s.push_str("   "); // a trailing partial record
        }
    }
    std::fs::write(path, s).unwrap();
}

fn permutations(n: usize) -> Vec<Vec<usize>> {
    fn rec(cur: &mut Vec<usize>, used: &mut Vec<bool>, n: usize, out: &mut Vec<Vec<usize>>) {
        if cur.len() == n {
            out.push(cur.clone());
            return;
        }
        for i in 0..n {
            if !used[i] {
                used[i] = true;
                cur.push(i);
                rec(cur, used, n, out);
                cur.pop();
                used[i] = false;
            }
        }
    }
    let mut out = Vec::new();
    rec(&mut Vec::new(), &mut vec![false; n], n, &mut out);
    out
}

/// numbers for the abstract window / lifecycle classes (a choice of test input; ConvertTrace re-classifies them)
fn concretise(o: &Value, n: u64, ids: &[u64], rng: &mut Rng) -> (u64, u64, Vec<u64>) {
    let n1 = n.max(4);
    let (b, e) = match o["winc"].as_str().unwrap() {
        "none" => (0, MAX_IDX),
        "b" => (rng.range(1, n1 / 2), MAX_IDX),
        "e" => (0, rng.range(n1 / 3, n1 - 2)),
        "in" => {
            let b = rng.range(1, n1 / 3);
            (b, rng.range(b, n1 - 2))
        }
        "empty" => {
            let e = rng.range(0, n1 / 2);
            (e + 1 + rng.below(n1 / 2), e)
        }
        _ => (n + rng.below(4), MAX_IDX),
    };
    let unknown = ids.iter().max().cloned().unwrap_or(0) + 7;
    let first = ids.first().cloned();
    let last = ids.last().cloned();
    let mid = ids.get(ids.len() / 2).cloned();
    let some = |v: Vec<Option<u64>>| v.into_iter().flatten().collect::<Vec<u64>>();
    // the lists are written exactly in this order on the command line (ids ascending: first < mid < last)
    let lcs = match o["lcsc"].as_str().unwrap() {
        "none" => vec![],
        "first" => some(vec![first]),
        "last" => some(vec![last]),
        "firstlast" => some(vec![first, if last != first { last } else { None }]),
        "lastfirst" => some(vec![last, if last != first { first } else { None }]),
        "perm3" => some(vec![mid, first, last]),
        "dup" => some(vec![last, first, last]),
        "unknownmixed" => some(vec![Some(unknown), last, first]),
        _ => vec![unknown],
    };
    (b, e, lcs)
}

struct Job {
    case: u64,
    hdr: Value,
    args: Vec<String>,
    ofile: Option<String>,
    ffile: Option<String>,
}

fn main() {
    let a = Args::from_env();
    let adlt = a.str("--adlt", "adlt");
    let work = a.str("--work", ".");
    let jobs_n = a.num("--jobs", 8) as usize;
    let seed = a.num("--seed", 1);
    let tests = a.str("--tests", "/repo/tests");
    let chunk = a.num("--chunk", 4000) as usize;
    let plan = read_ndjson(a.get("--plan").expect("--plan"));
    let mut total_cases = 0u64;
    let mut total_lines = 0u64;
    let mut total_runs = 0u64;
    let mut tool_errors: Vec<String> = Vec::new();
    for entry in &plan {
        let set = entry["set"].as_u64().unwrap();
        let dir = format!("{}/set{}", work, set);
        let _ = std::fs::remove_dir_all(&dir);
        std::fs::create_dir_all(&dir).unwrap();
        let mut rng = Rng::new(seed.wrapping_mul(1000003) ^ set);
        let (files, gen) = gen_set(&dir, &entry["shape"], &mut rng);
        std::fs::write(format!("{}/zz-empty.dlt", dir), b"").unwrap();
        std::fs::write(format!("{}/zz-garbage.dlt", dir), rng.bytes(300).into_iter().map(|b| if b == b'D' { b'E' } else { b }).collect::<Vec<u8>>()).unwrap();
        let mut ref_evs: Vec<Value> = Vec::new();
        let base_case = set * 1_000_000;
        // ---------------- reference runs (identity order of the file arguments, no selection)
        let gen_json: Vec<Value> = gen
            .iter()
            .map(|g| {
                let chars = |x: &str| x.chars().map(|c| c.to_string()).collect::<Vec<String>>();
                json!({"key": g.key, "hash": g.hash, "ecu": g.ecu, "apid": g.apid, "ctid": g.ctid, "ext": g.ext,
                       "ecuc": chars(&g.ecu), "apidc": chars(&g.apid), "ctidc": chars(&g.ctid)})
            })
            .collect();
        ref_evs.push(json!({"ev":"reset","case":base_case,"hdr":{"kind":"ref","set":set,"shape":entry["shape"],"files":files,"gen":gen_json}}));
        let mut a_args = vec!["-a".to_string()];
        a_args.extend(files.iter().cloned());
        let r = run_adlt(&adlt, &dir, "ref-a", &a_args);
        total_runs += 1;
        if r.timed_out {
            tool_errors.push(format!("set {} reference run timed out", set));
        }
        let (ref_lines, other) = parse_lines(&r.stdout);
        for l in &ref_lines {
            let mut l = l.clone();
            l["ev"] = json!("refline");
            ref_evs.push(l);
        }
        if r.panicked {
            ref_evs.push(json!({"ev":"panic","msg":r.stderr_tail}));
        }
        ref_evs.push(json!({"ev":"exit","code":r.code,"other":other}));
        let r2 = run_adlt(&adlt, &dir, "ref-l", &files);
        total_runs += 1;
        let listing = parse_listing(&r2.stdout);
        if r2.panicked || r2.code != 0 {
            ref_evs.push(json!({"ev":"panic","msg":r2.stderr_tail,"code":r2.code}));
        }
        for l in &listing {
            let mut l = l.clone();
            l["ev"] = json!("lc");
            ref_evs.push(l);
        }
        let mut ids: Vec<u64> = listing.iter().map(|l| l["id"].as_u64().unwrap()).collect();
        ids.sort();
        for id in &ids {
            let mut args = vec!["-s".to_string(), format!("--lcs={}", id)];
            args.extend(files.iter().cloned());
            let r3 = run_adlt(&adlt, &dir, "ref-m", &args);
            total_runs += 1;
            if r3.panicked || r3.code != 0 {
                ref_evs.push(json!({"ev":"panic","msg":r3.stderr_tail,"code":r3.code}));
            }
            let (ml, _) = parse_lines(&r3.stdout);
            let idx: Vec<u64> = ml.iter().map(|l| l["index"].as_u64().unwrap()).collect();
            ref_evs.push(json!({"ev":"member","id":id,"idx":idx}));
        }
        // the order `--sort` gives without any selection (coverage accounting only: does sorting permute, also across -e?)
        let mut s_args = vec!["-s".to_string(), "--sort".to_string()];
        s_args.extend(files.iter().cloned());
        let r4 = run_adlt(&adlt, &dir, "ref-s", &s_args);
        total_runs += 1;
        let sorted_order: Vec<u64> = parse_lines(&r4.stdout).0.iter().map(|l| l["index"].as_u64().unwrap()).collect();
        ref_evs.push(json!({"ev":"end","sorted_order":sorted_order}));
        // ---------------- selection runs
        let n = ref_lines.len() as u64;
        let perms = permutations(files.len());
        let tied_set = entry["shape"]["tie"].as_str().unwrap_or("none") != "none";
        let dup_arg = entry["shape"]["dup"].as_bool().unwrap_or(false);
        let opts = entry["opts"].as_array().unwrap();
        let mut jobs: Vec<Job> = Vec::new();
        for (j, o) in opts.iter().enumerate() {
            let case = base_case + 1 + j as u64;
            let (b, e, lcs) = concretise(o, n, &ids, &mut rng);
            let perm = if tied_set { &perms[0] } else { &perms[j % perms.len()] };
            let mut args: Vec<String> = Vec::new();
            let style = o["style"].as_str().unwrap();
            if style != "none" {
                args.push(format!("-{}", style));
            }
            if b != 0 {
                args.push("-b".into());
                args.push(b.to_string());
            }
            if e != MAX_IDX {
                args.push(format!("-e{}", e));
            }
            if !lcs.is_empty() {
                args.push(format!("--lcs={}", lcs.iter().map(|x| x.to_string()).collect::<Vec<_>>().join(",")));
            }
            // order of the entries of the multi-valued options as written: as listed | reversed | first entry repeated
            let reorder = |v: &Vec<Value>| -> Vec<Value> {
                let mut v = v.clone();
                match o["ord"].as_str().unwrap_or("asc") {
                    "rev" => v.reverse(),
                    "dup" => {
                        if let Some(f) = v.first().cloned() {
                            v.push(f);
                        }
                    }
                    _ => {}
                }
                v
            };
            let eac = &reorder(o["eac"].as_array().unwrap());
            if !eac.is_empty() {
                let ex: Vec<String> = eac
                    .iter()
                    .map(|f| {
                        let part = |k: &str| {
                            let rx = f["rx"][k]["s"].as_str().unwrap_or("");
                            if rx.is_empty() { f[k].as_str().unwrap().to_string() } else { rx.to_string() }
                        };
                        format!("{}:{}:{}", part("ecu"), part("apid"), part("ctid")).trim_end_matches(':').to_string()
                    })
                    .collect();
                args.push(format!("--eac={}", ex.join(",")));
            }
            let ffmt = o["f"]["fmt"].as_str().unwrap();
            let ff = &reorder(o["f"]["ff"].as_array().unwrap());
            let mut ffile = None;
            let mut npad = 0usize;
            if ffmt != "none" {
                let p = format!("{}/ff-{}.{}", dir, j, if ffmt == "dlf" { "dlf" } else { "txt" });
                let n = o["f"]["n"].as_u64().unwrap_or(0) as usize;
                let entries = file_entries(ff, n, o["f"]["at"].as_str().unwrap_or("end"));
                npad = entries.len() - ff.len();
                render_filter_file(&p, ffmt, &entries, o["f"]["eol"].as_str().unwrap_or("lf"));
                args.push("-f".into());
                args.push(p.clone());
                ffile = Some(p);
            }
            let sort = o["sort"].as_bool().unwrap();
            if sort {
                args.push("--sort".into());
            }
            let mut ofile = None;
            if o["ofile"].as_bool().unwrap() {
                let p = format!("{}/out-{}.dlt", dir, j);
                // every other output path exists already and is LARGER than anything the run can write: a complete copy of the
                // first input file (valid messages) followed by 64 KiB of filler - "the DLT file it writes" holds nothing of it
                if j % 2 == 1 {
                    let mut old = std::fs::read(format!("{}/f0.dlt", dir)).unwrap_or_default();
                    old.extend(std::iter::repeat(old.clone()).take(3).flatten().collect::<Vec<u8>>());
                    old.extend(std::iter::repeat(0xa5u8).take(64 * 1024));
                    std::fs::write(&p, old).unwrap();
                }
                args.push("-o".into());
                args.push(p.clone());
                ofile = Some(p);
            }
            match o["extra"].as_str().unwrap_or("none") {
                "decoders" => {
                    for (k, v) in [("--nonverbose_path", tests.clone()), ("--someip_path", tests.clone()), ("--rewrite_path", format!("{}/rewrite.cfg", tests)),
                                   ("--can_path", tests.clone()), ("--muniic_path", format!("{}/muniic", tests))] {
                        args.push(k.into());
                        args.push(v);
                    }
                }
                "ft" => {
                    args.push("--file_transfer=*.zzz".into());
                    args.push("--file_transfer_apid".into());
                    args.push("SYS".into());
                    args.push("--file_transfer_ctid".into());
                    args.push("FILE".into());
                }
                "debug" => {
                    args.push("--debug_verify_sort".into());
                    args.push("--debug_verify_lcs".into());
                }
                _ => {}
            }
            let argsc = o["args"].as_str().unwrap_or("list");
            if argsc == "glob" {
                args.push(format!("{}/f*.dlt", dir)); // expands (in name order) to exactly the input files of the set
            } else {
                for f in perm {
                    args.push(files[*f].clone());
                }
                match argsc {
                    "plus_empty" => args.push(format!("{}/zz-empty.dlt", dir)),
                    "plus_garbage" => args.push(format!("{}/zz-garbage.dlt", dir)),
                    "plus_missing" => args.push(format!("{}/zz-missing.dlt", dir)),
                    _ => {}
                }
            }
            if dup_arg {
                args.push(files[0].clone()); // the same file named twice: de-duplicated by the tool
            }
            // the npad further entries of the filter file are represented by one filter of their kind (positive, ids no message has)
            let mut ff_hdr: Vec<Value> = ff.clone();
            if npad > 0 {
                let norx = json!({"t":"none","w":[],"v":[],"s":""});
                ff_hdr.push(json!({"kind":"pos","en":true,"ecu":"","apid":"ZZZZ","ctid":"YYYY","rx":{"ecu":norx,"apid":norx,"ctid":norx}}));
            }
            let ff = &ff_hdr;
            let hdr = json!({"kind":"sel","set":set,"perm":perm,"argv":args,
                "opts":{"winc":o["winc"],"lcsc":o["lcsc"],"ord":o["ord"].as_str().unwrap_or("asc"),"b":b,"e":e,"lcs":lcs,"eac":eac,"ff":ff,"npad":npad,"fn":o["f"]["n"].as_u64().unwrap_or(0),"fat":o["f"]["at"].as_str().unwrap_or("end"),"feol":o["f"]["eol"].as_str().unwrap_or("lf"),"ffmt":ffmt,"sort":sort,"style":style,"ofile":o["ofile"],
                        "extra":o["extra"].as_str().unwrap_or("none"),"args":argsc}});
            jobs.push(Job { case, hdr, args, ofile, ffile });
        }
        let next = AtomicUsize::new(0);
        let results: Vec<Mutex<Option<Vec<Value>>>> = (0..jobs.len()).map(|_| Mutex::new(None)).collect();
        let terr: Mutex<Vec<String>> = Mutex::new(Vec::new());
        std::thread::scope(|s| {
            for _ in 0..jobs_n {
                s.spawn(|| loop {
                    let i = next.fetch_add(1, Ordering::SeqCst);
                    if i >= jobs.len() {
                        break;
                    }
                    let job = &jobs[i];
                    let r = run_adlt(&adlt, &dir, &format!("j{}", i), &job.args);
                    let mut evs = vec![json!({"ev":"reset","case":job.case,"hdr":job.hdr})];
                    if r.timed_out {
                        terr.lock().unwrap().push(format!("case {} timed out: {:?}", job.case, job.args));
                    }
                    let (lines, other) = parse_lines(&r.stdout);
                    for l in lines {
                        let mut l = l;
                        l["ev"] = json!("line");
                        evs.push(l);
                    }
                    if r.panicked {
                        evs.push(json!({"ev":"panic","msg":r.stderr_tail}));
                    }
                    evs.push(json!({"ev":"exit","code":r.code,"other":other}));
                    if let Some(p) = &job.ofile {
                        match reread(p) {
                            Some(fm) => evs.extend(fm),
                            None => evs.push(json!({"ev":"nofile"})),
                        }
                        let _ = std::fs::remove_file(p);
                    }
                    if let Some(p) = &job.ffile {
                        let _ = std::fs::remove_file(p);
                    }
                    evs.push(json!({"ev":"end"}));
                    *results[i].lock().unwrap() = Some(evs);
                });
            }
        });
        tool_errors.extend(terr.into_inner().unwrap());
        total_runs += jobs.len() as u64;
        let results: Vec<Vec<Value>> = results.into_iter().map(|r| r.into_inner().unwrap().unwrap()).collect();
        let mut ci = 0;
        for part in results.chunks(chunk.max(1)).chain(if results.is_empty() { Some(&results[..]) } else { None }) {
            let mut t = Trace::create(&format!("{}/trace-set{}-{:03}.ndjson", work, set, ci));
            ci += 1;
            for e in &ref_evs {
                t.ev(e.clone());
            }
            for r in part {
                for e in r {
                    t.ev(e.clone());
                }
            }
            t.flush();
            total_lines += t.lines;
        }
        total_cases += 1 + jobs.len() as u64;
    }
    println!("{}", json!({"cases": total_cases, "lines": total_lines, "runs": total_runs, "tool_errors": tool_errors}));
}
