//! C18 driver: verbose payload encode -> (truncate | corrupt one field) -> decode -> render on the REAL code.
//! Encoders under test: the serde Serializer through `dlt_args!` / `add_to_serializer` (native byte order) and
//! `payload_from_args` (both byte orders). Decoder: `for arg in &msg`, `DltMessage::payload_as_text`.
//! Scenarios (argument kinds / widths / data lengths x truncation point, corruptions) come from TLC together with the
//! slices the model predicts; the driver fills in values, runs the real code and writes `codec` events. The only
//! comparison done here is data equality between observation and TLC's prediction (fast path, DESIGN.md section 2);
//! every verdict is taken by TLC on the recorded events (spec/VerbTrace.tla).
//! Documented exception: the decimal texts of the ORIGINAL numbers are produced here (core::fmt / ryu), see VerbTrace.
//! Nested shapes (spec/VerbShapes.tla): the same values handed to the serde encoder inside Option / newtype / tuple / struct /
//! Vec / map / enum variants, with chars, units and unit variants between them, through dlt_args!, add_to_serializer,
//! to_payload and the serializer's own SerializeSeq / SerializeTuple / ... / SerializeStruct helper methods (`Sh`, `encode_shaped`).
//! Real Rust types are used wherever the arity allows (Option, tuples, Vec, char, (), derived structs / enums); the rest calls
//! the serde data-model methods exactly as a derive would.
use adlt::dlt::{
    DltArg, DltExtendedHeader, DltMessage, DltStandardHeader, DLT_SCOD_ASCII, DLT_SCOD_UTF8, DLT_TYLE_16BIT, DLT_TYLE_32BIT,
    DLT_TYLE_64BIT, DLT_TYLE_8BIT, DLT_TYPE_INFO_BOOL, DLT_TYPE_INFO_FLOA, DLT_TYPE_INFO_RAWD, DLT_TYPE_INFO_SINT,
    DLT_TYPE_INFO_STRG, DLT_TYPE_INFO_UINT,
};
use adlt::serde_verb_payload::{add_to_serializer, Serializer};
use adlt::utils::payload_from_args;
use vh::*;

#[derive(Clone, Debug)]
enum Val {
    Bool(bool),
    I8(i8),
    I16(i16),
    I32(i32),
    I64(i64),
    U8(u8),
    U16(u16),
    U32(u32),
    U64(u64),
    F32(f32),
    F64(f64),
    StrU(Vec<u8>), // bytes handed to the encoder (serde: the &str, which the encoder NUL-terminates itself)
    StrA(Vec<u8>),
    Raw(Vec<u8>),
}

struct BytesSer<'a>(&'a [u8]);
impl serde::Serialize for BytesSer<'_> {
    fn serialize<S: serde::Serializer>(&self, s: S) -> Result<S::Ok, S::Error> {
        s.serialize_bytes(self.0)
    }
}
impl serde::Serialize for Val {
    fn serialize<S: serde::Serializer>(&self, s: S) -> Result<S::Ok, S::Error> {
        match self {
            Val::Bool(v) => s.serialize_bool(*v),
            Val::I8(v) => s.serialize_i8(*v),
            Val::I16(v) => s.serialize_i16(*v),
            Val::I32(v) => s.serialize_i32(*v),
            Val::I64(v) => s.serialize_i64(*v),
            Val::U8(v) => s.serialize_u8(*v),
            Val::U16(v) => s.serialize_u16(*v),
            Val::U32(v) => s.serialize_u32(*v),
            Val::U64(v) => s.serialize_u64(*v),
            Val::F32(v) => s.serialize_f32(*v),
            Val::F64(v) => s.serialize_f64(*v),
            Val::StrU(b) => s.serialize_str(std::str::from_utf8(b).expect("driver: serde strings are valid utf-8")),
            // exactly what #[derive(Serialize)] generates for DltVerbArgTypeWrapper::DltScodAscii(&serde_bytes::Bytes)
            Val::StrA(b) => s.serialize_newtype_variant("DltVerbArgTypeWrapper", 0, "DltScodAscii", &BytesSer(b)),
            Val::Raw(b) => s.serialize_bytes(b),
        }
    }
}

impl Val {
    fn kind(&self) -> &'static str {
        match self {
            Val::Bool(_) => "bool",
            Val::I8(_) | Val::I16(_) | Val::I32(_) | Val::I64(_) => "sint",
            Val::U8(_) | Val::U16(_) | Val::U32(_) | Val::U64(_) => "uint",
            Val::F32(_) | Val::F64(_) => "floa",
            Val::StrU(_) => "strU",
            Val::StrA(_) => "strA",
            Val::Raw(_) => "rawd",
        }
    }
    fn width(&self) -> usize {
        match self {
            Val::Bool(_) | Val::I8(_) | Val::U8(_) => 1,
            Val::I16(_) | Val::U16(_) => 2,
            Val::I32(_) | Val::U32(_) | Val::F32(_) => 4,
            Val::I64(_) | Val::U64(_) | Val::F64(_) => 8,
            _ => 0,
        }
    }
    /// little-endian bytes of a number / the byte of a bool / the bytes of a string or raw argument
    fn raw_le(&self) -> Vec<u8> {
        match self {
            Val::Bool(v) => vec![*v as u8],
            Val::I8(v) => v.to_le_bytes().to_vec(),
            Val::I16(v) => v.to_le_bytes().to_vec(),
            Val::I32(v) => v.to_le_bytes().to_vec(),
            Val::I64(v) => v.to_le_bytes().to_vec(),
            Val::U8(v) => v.to_le_bytes().to_vec(),
            Val::U16(v) => v.to_le_bytes().to_vec(),
            Val::U32(v) => v.to_le_bytes().to_vec(),
            Val::U64(v) => v.to_le_bytes().to_vec(),
            Val::F32(v) => v.to_le_bytes().to_vec(),
            Val::F64(v) => v.to_le_bytes().to_vec(),
            Val::StrU(b) | Val::StrA(b) | Val::Raw(b) => b.clone(),
        }
    }
    fn is_num(&self) -> bool {
        matches!(self.kind(), "sint" | "uint" | "floa")
    }
    /// decimal renderings of the ORIGINAL value by trusted formatters (the documented exception)
    fn num_texts(&self) -> Vec<String> {
        match self {
            Val::I8(v) => vec![v.to_string()],
            Val::I16(v) => vec![v.to_string()],
            Val::I32(v) => vec![v.to_string()],
            Val::I64(v) => vec![v.to_string()],
            Val::U8(v) => vec![v.to_string()],
            Val::U16(v) => vec![v.to_string()],
            Val::U32(v) => vec![v.to_string()],
            Val::U64(v) => vec![v.to_string()],
            Val::F32(v) => {
                let mut t = vec![v.to_string(), format!("{:?}", v), format!("{:e}", v)];
                if v.is_finite() {
                    t.push(serde_json::to_string(v).unwrap());
                }
                t
            }
            Val::F64(v) => {
                let mut t = vec![v.to_string(), format!("{:?}", v), format!("{:e}", v)];
                if v.is_finite() {
                    t.push(serde_json::to_string(v).unwrap());
                }
                t
            }
            _ => vec![],
        }
    }
    fn type_info(&self) -> u32 {
        let tyle = |w: usize| match w {
            1 => DLT_TYLE_8BIT,
            2 => DLT_TYLE_16BIT,
            4 => DLT_TYLE_32BIT,
            _ => DLT_TYLE_64BIT,
        } as u32;
        match self.kind() {
            "bool" => DLT_TYPE_INFO_BOOL | tyle(1),
            "sint" => DLT_TYPE_INFO_SINT | tyle(self.width()),
            "uint" => DLT_TYPE_INFO_UINT | tyle(self.width()),
            "floa" => DLT_TYPE_INFO_FLOA | tyle(self.width()),
            "strU" => DLT_TYPE_INFO_STRG | DLT_SCOD_UTF8,
            "strA" => DLT_TYPE_INFO_STRG | DLT_SCOD_ASCII,
            _ => DLT_TYPE_INFO_RAWD,
        }
    }
    /// bytes the decoder should hand back (message byte order for numbers; the serde string encoder adds the NUL)
    fn raw_in_msg(&self, be: bool, enc: &str) -> Vec<u8> {
        let mut r = self.raw_le();
        if self.is_num() && be {
            r.reverse();
        }
        if enc == "serde" && matches!(self, Val::StrU(_)) {
            r.push(0);
        }
        r
    }
    fn json(&self) -> Value {
        json!({"kind": self.kind(), "w": self.width(), "raw": self.raw_le(),
               "num": self.num_texts().iter().map(|s| s.as_bytes().to_vec()).collect::<Vec<_>>()})
    }
}

// ------------------------------------------------------------------------------------------------ value generation
fn pick_int(rng: &mut Rng, bits: u32) -> u64 {
    let max = if bits == 64 { u64::MAX } else { (1u64 << bits) - 1 };
    let v = match rng.below(8) {
        0 => 0,
        1 => 1,
        2 => max,                 // -1 / unsigned max
        3 => 1u64 << (bits - 1),  // signed min
        4 => (1u64 << (bits - 1)) - 1, // signed max
        5 => rng.below(1000),
        _ => rng.next_u64(),
    };
    v & max
}
fn pick_f32(rng: &mut Rng) -> f32 {
    match rng.below(14) {
        0 => 0.0,
        1 => -0.0,
        2 => 1.0,
        3 => -1.0,
        4 => f32::MIN_POSITIVE,
        5 => f32::MAX,
        6 => f32::MIN,
        7 => f32::NAN,
        8 => f32::INFINITY,
        9 => f32::NEG_INFINITY,
        10 => f32::from_bits(1), // subnormal
        11 => (rng.below(2_000_000) as f32 - 1_000_000.0) / 1000.0,
        _ => f32::from_bits(rng.next_u64() as u32),
    }
}
fn pick_f64(rng: &mut Rng) -> f64 {
    match rng.below(14) {
        0 => 0.0,
        1 => -0.0,
        2 => 1.0,
        3 => -1.0,
        4 => f64::MIN_POSITIVE,
        5 => f64::MAX,
        6 => f64::MIN,
        7 => f64::NAN,
        8 => f64::INFINITY,
        9 => f64::NEG_INFINITY,
        10 => f64::from_bits(1),
        11 => (rng.below(2_000_000_000) as f64 - 1.0e9) / 1.0e4,
        _ => f64::from_bits(rng.next_u64()),
    }
}
const MULTI: [&str; 5] = ["\u{e4}", "\u{20ac}", "\u{1f600}", "\u{df}", "\u{4e2d}"];
/// n bytes of valid UTF-8 without NUL: printable ASCII, sometimes CR / LF / TAB / other control bytes / multi-byte chars
fn utf8_text(rng: &mut Rng, n: usize) -> Vec<u8> {
    let mut v = Vec::with_capacity(n);
    let style = rng.below(4);
    while v.len() < n {
        let left = n - v.len();
        let r = rng.below(20);
        if style >= 2 && r == 0 && left >= 4 {
            let m = rng.pick(&MULTI).as_bytes();
            if m.len() <= left {
                v.extend_from_slice(m);
                continue;
            }
        }
        if style >= 1 && r < 3 {
            v.push(*rng.pick(&[b'\r', b'\n', b'\t', b' ', 0x01, 0x7f, 0x1b]));
        } else {
            v.push(rng.range(0x20, 0x7e) as u8);
        }
    }
    v
}
/// byte sequences >= 0x80 a text decoder might treat specially when a string starts with / contains them: the UTF-8 and
/// UTF-16 byte order marks, lone high bytes, a lone UTF-8 lead byte, a cut-off BOM
const HIGH_PREFIXES: [&[u8]; 8] = [&[0xef, 0xbb, 0xbf], &[0xff, 0xfe], &[0xfe, 0xff], &[0x80], &[0xff], &[0xe4], &[0xc3], &[0xef, 0xbb]];
/// n bytes: (mostly no) 7-bit lead, one of HIGH_PREFIXES, then 7-bit text with blanks / CR / LF / TAB, now and then a NUL
/// (UTF-16 look-alike) or another high byte; with or without terminator
fn high_then_text(rng: &mut Rng, n: usize) -> Vec<u8> {
    let mut v = Vec::with_capacity(n + 4);
    if rng.chance(1, 4) {
        for _ in 0..rng.range(1, 3) {
            v.push(rng.range(0x20, 0x7e) as u8);
        }
    }
    v.extend_from_slice(HIGH_PREFIXES[rng.below(HIGH_PREFIXES.len() as u64) as usize]);
    let style = rng.below(3);
    while v.len() < n {
        let r = rng.below(16);
        if r == 0 {
            v.push(*rng.pick(&[b'\r', b'\n', b'\t', b' ']));
        } else if style == 1 && r == 1 {
            v.push(rng.range(0x80, 0xff) as u8);
        } else if style == 2 && v.len() % 2 == 1 {
            v.push(0);
        } else {
            v.push(rng.range(0x20, 0x7e) as u8);
        }
    }
    v.truncate(n);
    if n >= 2 && rng.chance(1, 2) {
        v[n - 1] = 0;
    }
    v
}
/// n bytes for a string argument handed to payload_from_args: with / without NUL terminator, embedded NUL, control
/// and non-UTF-8 bytes
fn str_bytes(rng: &mut Rng, n: usize, utf8: bool) -> Vec<u8> {
    if n == 0 {
        return vec![];
    }
    if rng.chance(1, if utf8 { 8 } else { 4 }) {
        return high_then_text(rng, n);
    }
    let mut v = match rng.below(6) {
        0 => {
            let mut v = utf8_text(rng, n); // no terminator
            if rng.chance(1, 3) {
                let i = rng.below(n as u64) as usize;
                v[i] = if utf8 { *rng.pick(&[0x80u8, 0xff, 0xc0, 0xfe]) } else { rng.range(0x80, 0xff) as u8 };
            }
            v
        }
        1 => {
            let mut v = rng.bytes(n); // anything
            if rng.chance(1, 2) {
                v[n - 1] = 0;
            }
            v
        }
        _ => {
            let mut v = utf8_text(rng, n - 1); // the usual: text + NUL
            v.push(0);
            v
        }
    };
    if n >= 3 && rng.chance(1, 10) {
        v[n - 2] = 0; // embedded / double NUL
    }
    v
}
fn pick_val(rng: &mut Rng, kind: &str, w: usize, n: usize, enc: &str) -> Option<Val> {
    Some(match (kind, w) {
        ("bool", _) => Val::Bool(rng.chance(1, 2)),
        ("sint", 1) => Val::I8(pick_int(rng, 8) as i8),
        ("sint", 2) => Val::I16(pick_int(rng, 16) as i16),
        ("sint", 4) => Val::I32(pick_int(rng, 32) as i32),
        ("sint", _) => Val::I64(pick_int(rng, 64) as i64),
        ("uint", 1) => Val::U8(pick_int(rng, 8) as u8),
        ("uint", 2) => Val::U16(pick_int(rng, 16) as u16),
        ("uint", 4) => Val::U32(pick_int(rng, 32) as u32),
        ("uint", _) => Val::U64(pick_int(rng, 64)),
        ("floa", 4) => Val::F32(pick_f32(rng)),
        ("floa", _) => Val::F64(pick_f64(rng)),
        ("strU", _) => {
            if enc == "serde" {
                if n == 0 {
                    return None; // the serde string encoder always writes the terminator: no 0-byte encoding exists
                }
                Val::StrU(utf8_text(rng, n - 1))
            } else {
                Val::StrU(str_bytes(rng, n, true))
            }
        }
        ("strA", _) => Val::StrA(str_bytes(rng, n, false)),
        _ => Val::Raw(rng.bytes(n)),
    })
}

// ------------------------------------------------------------------------------------------------ nested shapes
/// names of variants / struct fields and the chars of `Sh::Char` (spec/mc/MCVerbPayload.tla NameLen / CharLen, ids 1-based there)
const NAMES: [&str; 4] = ["A", "Ok", "Third", "Variant9"];
const CHARS: [char; 4] = ['c', '\u{e4}', '\u{20ac}', '\u{1f600}'];

/// a tree over the serde data model (node types of spec/VerbShapes.tla)
#[derive(Clone, Debug)]
enum Sh {
    Leaf(Val),
    Char(usize),
    NoneV,
    Unit,
    UnitStruct,
    UnitVariant(usize),
    SomeV(Box<Sh>),
    Newtype(Box<Sh>),
    Wrapper(Box<Sh>),
    NewtypeVariant(usize, Box<Sh>),
    Seq(Vec<Sh>),
    Tuple(Vec<Sh>),
    TupleStruct(Vec<Sh>),
    TupleVariant(usize, Vec<Sh>),
    Map(Vec<Sh>),
    Struct(Vec<Sh>),
    StructVariant(usize, Vec<Sh>),
    Field(usize, Box<Sh>),
}

#[allow(non_snake_case, dead_code)]
mod real_types {
    //! genuine derived types (what user code would hand to dlt_args!)
    use super::Sh;
    #[derive(serde::Serialize)]
    pub struct UnitS;
    #[derive(serde::Serialize)]
    pub struct NewT<'a>(pub &'a Sh);
    #[derive(serde::Serialize)]
    pub struct TupS2<'a>(pub &'a Sh, pub &'a Sh);
    #[derive(serde::Serialize)]
    pub struct TupS3<'a>(pub &'a Sh, pub &'a Sh, pub &'a Sh);
    #[derive(serde::Serialize)]
    pub struct St1<'a> {
        pub A: &'a Sh,
    }
    #[derive(serde::Serialize)]
    pub struct St2<'a> {
        pub A: &'a Sh,
        pub Ok: &'a Sh,
    }
    #[derive(serde::Serialize)]
    pub struct St3<'a> {
        pub A: &'a Sh,
        pub Ok: &'a Sh,
        pub Third: &'a Sh,
    }
    #[derive(serde::Serialize)]
    pub enum UnitE {
        A,
        Ok,
        Third,
        Variant9,
    }
    #[derive(serde::Serialize)]
    pub enum NewtE<'a> {
        A(&'a Sh),
        Ok(&'a Sh),
        Third(&'a Sh),
        Variant9(&'a Sh),
    }
    #[derive(serde::Serialize)]
    pub enum TupE<'a> {
        A(&'a Sh, &'a Sh),
        Ok(&'a Sh, &'a Sh),
        Third(&'a Sh, &'a Sh),
        Variant9(&'a Sh, &'a Sh),
    }
    /// same name and variant position as adlt's DltVerbArgTypeWrapper (which only takes &serde_bytes::Bytes)
    #[derive(serde::Serialize)]
    pub enum DltVerbArgTypeWrapper<'a> {
        DltScodAscii(&'a Sh),
    }
}

impl serde::Serialize for Sh {
    fn serialize<S: serde::Serializer>(&self, s: S) -> Result<S::Ok, S::Error> {
        use real_types::*;
        use serde::ser::{SerializeMap, SerializeStruct, SerializeStructVariant, SerializeTuple, SerializeTupleStruct, SerializeTupleVariant};
        let field_ids = |v: &[Sh]| -> Vec<usize> { v.iter().map(|f| if let Sh::Field(id, _) = f { *id } else { usize::MAX }).collect() };
        let field_val = |f: &Sh| -> Sh { if let Sh::Field(_, x) = f { (**x).clone() } else { f.clone() } };
        match self {
            Sh::Leaf(v) => v.serialize(s),
            Sh::Char(i) => CHARS[*i].serialize(s),
            Sh::NoneV => None::<u8>.serialize(s),
            Sh::Unit => ().serialize(s),
            Sh::UnitStruct => UnitS.serialize(s),
            Sh::UnitVariant(i) => match i {
                0 => UnitE::A,
                1 => UnitE::Ok,
                2 => UnitE::Third,
                _ => UnitE::Variant9,
            }
            .serialize(s),
            Sh::SomeV(x) => Some(&**x).serialize(s),
            Sh::Newtype(x) => NewT(x).serialize(s),
            Sh::Wrapper(x) => DltVerbArgTypeWrapper::DltScodAscii(x).serialize(s),
            Sh::NewtypeVariant(i, x) => match i {
                0 => NewtE::A(x),
                1 => NewtE::Ok(x),
                2 => NewtE::Third(x),
                _ => NewtE::Variant9(x),
            }
            .serialize(s),
            Sh::Seq(v) => v.serialize(s), // Vec<Sh>
            Sh::Tuple(v) => match v.as_slice() {
                [a] => (a,).serialize(s),
                [a, b] => (a, b).serialize(s),
                [a, b, c] => (a, b, c).serialize(s),
                [a, b, c, d] => (a, b, c, d).serialize(s),
                _ => {
                    let mut t = s.serialize_tuple(v.len())?; // (a 0-tuple is `()` in Rust; this is the data-model tuple of arity 0 / > 4)
                    for x in v {
                        t.serialize_element(x)?;
                    }
                    t.end()
                }
            },
            Sh::TupleStruct(v) => match v.as_slice() {
                [a, b] => TupS2(a, b).serialize(s),
                [a, b, c] => TupS3(a, b, c).serialize(s),
                _ => {
                    let mut t = s.serialize_tuple_struct("TupSN", v.len())?;
                    for x in v {
                        t.serialize_field(x)?;
                    }
                    t.end()
                }
            },
            Sh::TupleVariant(i, v) => match (v.as_slice(), i) {
                ([a, b], 0) => TupE::A(a, b).serialize(s),
                ([a, b], 1) => TupE::Ok(a, b).serialize(s),
                ([a, b], 2) => TupE::Third(a, b).serialize(s),
                ([a, b], 3) => TupE::Variant9(a, b).serialize(s),
                _ => {
                    let mut t = s.serialize_tuple_variant("TupE", *i as u32, NAMES[*i], v.len())?;
                    for x in v {
                        t.serialize_field(x)?;
                    }
                    t.end()
                }
            },
            Sh::Map(v) => {
                let mut m = s.serialize_map(Some(v.len().div_ceil(2)))?;
                for (j, x) in v.iter().enumerate() {
                    if j % 2 == 0 {
                        m.serialize_key(x)?;
                    } else {
                        m.serialize_value(x)?;
                    }
                }
                m.end()
            }
            Sh::Struct(v) => {
                let ids = field_ids(v);
                match ids.as_slice() {
                    [0] => St1 { A: &field_val(&v[0]) }.serialize(s),
                    [0, 1] => St2 { A: &field_val(&v[0]), Ok: &field_val(&v[1]) }.serialize(s),
                    [0, 1, 2] => St3 { A: &field_val(&v[0]), Ok: &field_val(&v[1]), Third: &field_val(&v[2]) }.serialize(s),
                    _ => {
                        let mut t = s.serialize_struct("StN", v.len())?;
                        for (f, id) in v.iter().zip(ids.iter()) {
                            t.serialize_field(NAMES[*id % NAMES.len()], &field_val(f))?;
                        }
                        t.end()
                    }
                }
            }
            Sh::StructVariant(i, v) => {
                let ids = field_ids(v);
                let mut t = s.serialize_struct_variant("StE", *i as u32, NAMES[*i], v.len())?;
                for (f, id) in v.iter().zip(ids.iter()) {
                    t.serialize_field(NAMES[*id % NAMES.len()], &field_val(f))?;
                }
                t.end()
            }
            Sh::Field(_, x) => x.serialize(s), // (only meaningful below a struct / through d_struct)
        }
    }
}

impl Sh {
    fn tname(&self) -> &'static str {
        match self {
            Sh::Leaf(_) => "leaf",
            Sh::Char(_) => "char",
            Sh::NoneV => "none",
            Sh::Unit => "unit",
            Sh::UnitStruct => "unit_struct",
            Sh::UnitVariant(_) => "unit_variant",
            Sh::SomeV(_) => "some",
            Sh::Newtype(_) => "newtype",
            Sh::Wrapper(_) => "wrapper",
            Sh::NewtypeVariant(..) => "newtype_variant",
            Sh::Seq(_) => "seq",
            Sh::Tuple(_) => "tuple",
            Sh::TupleStruct(_) => "tuple_struct",
            Sh::TupleVariant(..) => "tuple_variant",
            Sh::Map(_) => "map",
            Sh::Struct(_) => "struct",
            Sh::StructVariant(..) => "struct_variant",
            Sh::Field(..) => "field",
        }
    }
    fn kids(&self) -> Vec<&Sh> {
        match self {
            Sh::SomeV(x) | Sh::Newtype(x) | Sh::Wrapper(x) | Sh::NewtypeVariant(_, x) | Sh::Field(_, x) => vec![&**x],
            Sh::Seq(v) | Sh::Tuple(v) | Sh::TupleStruct(v) | Sh::TupleVariant(_, v) | Sh::Map(v) | Sh::Struct(v) | Sh::StructVariant(_, v) => v.iter().collect(),
            _ => vec![],
        }
    }
    fn name_id(&self) -> Option<usize> {
        match self {
            Sh::UnitVariant(i) | Sh::NewtypeVariant(i, _) | Sh::TupleVariant(i, _) | Sh::StructVariant(i, _) | Sh::Field(i, _) => Some(*i),
            _ => None,
        }
    }
    /// the tree as logged for the contract: node type, the value of a leaf / the bytes of a char, the bytes of a name, children
    fn json(&self) -> Value {
        let a = match self {
            Sh::Leaf(v) => v.json(),
            Sh::Char(i) => json!({"kind":"strU","w":0,"raw":CHARS[*i].to_string().into_bytes(),"num":Vec::<Vec<u8>>::new()}),
            _ => json!({"kind":"none","w":0,"raw":Vec::<u8>::new(),"num":Vec::<Vec<u8>>::new()}),
        };
        json!({"t": self.tname(), "a": a, "name": self.name_id().map(|i| NAMES[i].as_bytes().to_vec()).unwrap_or_default(),
               "c": self.kids().iter().map(|k| k.json()).collect::<Vec<_>>()})
    }
    fn count_hits(&self, hit: &mut dyn FnMut(String)) {
        hit(format!("shape_{}", self.tname()));
        for k in self.kids() {
            k.count_hits(hit);
        }
    }
    /// a tree emitted by TLC ({"t","i","n","c"}) over the scenario's values
    fn from_scn(j: &Value, vals: &[Val]) -> Sh {
        let kids: Vec<Sh> = j["c"].as_array().unwrap().iter().map(|k| Sh::from_scn(k, vals)).collect();
        let i = j["i"].as_u64().unwrap() as usize;
        let one = || Box::new(kids[0].clone());
        let name = || {
            assert_eq!(NAMES[i - 1].len() as u64, j["n"].as_u64().unwrap(), "driver NAMES and the model's NameLen disagree");
            i - 1
        };
        match j["t"].as_str().unwrap() {
            "leaf" => Sh::Leaf(vals[i - 1].clone()),
            "char" => {
                assert_eq!(CHARS[i - 1].len_utf8() as u64, j["n"].as_u64().unwrap(), "driver CHARS and the model's CharLen disagree");
                Sh::Char(i - 1)
            }
            "none" => Sh::NoneV,
            "unit" => Sh::Unit,
            "unit_struct" => Sh::UnitStruct,
            "unit_variant" => Sh::UnitVariant(name()),
            "some" => Sh::SomeV(one()),
            "newtype" => Sh::Newtype(one()),
            "wrapper" => Sh::Wrapper(one()),
            "newtype_variant" => Sh::NewtypeVariant(name(), one()),
            "seq" => Sh::Seq(kids),
            "tuple" => Sh::Tuple(kids),
            "tuple_struct" => Sh::TupleStruct(kids),
            "tuple_variant" => Sh::TupleVariant(name(), kids),
            "map" => Sh::Map(kids),
            "struct" => Sh::Struct(kids),
            "struct_variant" => Sh::StructVariant(name(), kids),
            "field" => Sh::Field(name(), one()),
            t => panic!("driver: unknown node type {}", t),
        }
    }
}

const VIAS: [&str; 9] = ["args", "to_payload", "d_seq", "d_tuple", "d_tuple_struct", "d_tuple_variant", "d_map", "d_struct", "d_struct_variant"];

/// hand the trees to the serde encoder through the entry point `via`
fn encode_shaped(via: &str, tops: &[Sh]) -> Result<(u32, Vec<u8>), String> {
    use adlt::serde_verb_payload::{to_payload, Error};
    use serde::ser::{SerializeMap, SerializeSeq, SerializeStruct, SerializeStructVariant, SerializeTuple, SerializeTupleStruct, SerializeTupleVariant};
    let direct = |f: &dyn Fn(&mut Serializer) -> Result<(), Error>| -> Result<(u8, Vec<u8>), Error> {
        let mut s = Serializer { output: Vec::default() };
        f(&mut s)?;
        Ok((tops.len().min(255) as u8, s.output))
    };
    let fld = |t: &Sh| -> (&'static str, Sh) {
        match t {
            Sh::Field(i, x) => (NAMES[*i], (**x).clone()),
            other => ("A", other.clone()),
        }
    };
    let r = match via {
        "args" => match tops {
            [] => adlt::dlt_args!(),
            [a] => adlt::dlt_args!(a),
            [a, b] => adlt::dlt_args!(a, b),
            [a, b, c] => adlt::dlt_args!(a, b, c),
            [a, b, c, d] => adlt::dlt_args!(a, b, c, d),
            _ => direct(&|s| {
                for t in tops {
                    add_to_serializer(s, t)?;
                }
                Ok(())
            }),
        },
        "to_payload" => to_payload(&tops[0]).map(|p| (1u8, p)),
        // the helper traits of `&mut Serializer`, element by element, then `end`
        "d_seq" => direct(&|s| {
            let mut h = s;
            for t in tops {
                SerializeSeq::serialize_element(&mut h, t)?;
            }
            SerializeSeq::end(h)
        }),
        "d_tuple" => direct(&|s| {
            let mut h = s;
            for t in tops {
                SerializeTuple::serialize_element(&mut h, t)?;
            }
            SerializeTuple::end(h)
        }),
        "d_tuple_struct" => direct(&|s| {
            let mut h = s;
            for t in tops {
                SerializeTupleStruct::serialize_field(&mut h, t)?;
            }
            SerializeTupleStruct::end(h)
        }),
        "d_tuple_variant" => direct(&|s| {
            let mut h = s;
            for t in tops {
                SerializeTupleVariant::serialize_field(&mut h, t)?;
            }
            SerializeTupleVariant::end(h)
        }),
        "d_map" => direct(&|s| {
            let mut h = s;
            for (j, t) in tops.iter().enumerate() {
                if j % 2 == 0 {
                    SerializeMap::serialize_key(&mut h, t)?;
                } else {
                    SerializeMap::serialize_value(&mut h, t)?;
                }
            }
            SerializeMap::end(h)
        }),
        "d_struct" => direct(&|s| {
            let mut h = s;
            for t in tops {
                let (k, v) = fld(t);
                SerializeStruct::serialize_field(&mut h, k, &v)?;
            }
            SerializeStruct::end(h)
        }),
        "d_struct_variant" => direct(&|s| {
            let mut h = s;
            for t in tops {
                let (k, v) = fld(t);
                SerializeStructVariant::serialize_field(&mut h, k, &v)?;
            }
            SerializeStructVariant::end(h)
        }),
        v => panic!("driver: unknown entry point {}", v),
    };
    r.map(|(n, p)| (n as u32, p)).map_err(|e| format!("encoder error: {}", e))
}

/// a random tree over random values (depth <= 3); `names` bounds the number of optional (named) nodes of one case
fn random_tree(rng: &mut Rng, depth: u32, names: &mut u32) -> Sh {
    let leaf = |rng: &mut Rng| -> Sh {
        let kinds: [(&str, usize); 14] = [("bool", 1), ("sint", 1), ("sint", 2), ("sint", 4), ("sint", 8), ("uint", 1), ("uint", 2), ("uint", 4),
                                          ("uint", 8), ("floa", 4), ("floa", 8), ("strU", 0), ("strA", 0), ("rawd", 0)];
        loop {
            let (k, w) = *rng.pick(&kinds);
            let n = match rng.below(4) { 0 => 0, 1 => 1, _ => rng.range(1, 12) as usize };
            if let Some(v) = pick_val(rng, k, w, n, "serde") {
                return Sh::Leaf(v);
            }
        }
    };
    if depth == 0 {
        return leaf(rng);
    }
    let kid = |rng: &mut Rng, names: &mut u32| Box::new(random_tree(rng, depth - 1, names));
    let r = rng.below(40);
    let named_ok = *names < 4;
    match r {
        0..=13 => leaf(rng),
        14..=19 => Sh::SomeV(kid(rng, names)),
        20..=24 => Sh::Newtype(kid(rng, names)),
        25 => Sh::Char(rng.below(4) as usize),
        26 => Sh::NoneV,
        27 => rng.pick(&[Sh::Unit, Sh::UnitStruct]).clone(),
        28 | 29 => {
            let n = rng.below(10) as usize;
            Sh::Wrapper(Box::new(if rng.chance(2, 3) { Sh::Leaf(Val::Raw(str_bytes(rng, n, false))) } else { random_tree(rng, depth - 1, names) }))
        }
        30 | 31 if named_ok => {
            *names += 1;
            Sh::UnitVariant(rng.below(4) as usize)
        }
        32 if named_ok => {
            *names += 1;
            Sh::NewtypeVariant(rng.below(4) as usize, kid(rng, names))
        }
        _ => {
            let n = rng.below(4) as usize;
            let mut v = Vec::new();
            for _ in 0..n {
                v.push(random_tree(rng, depth - 1, names));
            }
            match rng.below(7) {
                0 => Sh::Seq(v),
                1 => Sh::Tuple(v),
                2 => Sh::TupleStruct(v),
                3 => Sh::Map(v),
                4 if *names < 4 => {
                    *names += 1;
                    Sh::TupleVariant(rng.below(4) as usize, v)
                }
                5 if *names + (n as u32) <= 4 => {
                    *names += n as u32;
                    Sh::Struct(v.into_iter().enumerate().map(|(j, x)| Sh::Field(j % 4, Box::new(x))).collect())
                }
                _ => Sh::Tuple(v),
            }
        }
    }
}

// ------------------------------------------------------------------------------------------------ the real code
fn encode(enc: &str, be: bool, vals: &[Val]) -> Result<(u32, Vec<u8>), String> {
    if enc == "serde" {
        let r = match vals {
            [] => adlt::dlt_args!(),
            [a] => adlt::dlt_args!(a),
            [a, b] => adlt::dlt_args!(a, b),
            [a, b, c] => adlt::dlt_args!(a, b, c),
            _ => (|| -> Result<(u8, Vec<u8>), adlt::serde_verb_payload::Error> {
                let mut s = Serializer { output: Vec::default() };
                for v in vals {
                    add_to_serializer(&mut s, v)?;
                }
                Ok((vals.len() as u8, s.output))
            })(),
        };
        r.map(|(n, p)| (n as u32, p)).map_err(|e| format!("encoder error: {}", e))
    } else {
        let raws: Vec<Vec<u8>> = vals.iter().map(|v| v.raw_in_msg(be, enc)).collect();
        let args: Vec<DltArg> = vals.iter().zip(raws.iter())
            .map(|(v, r)| DltArg { type_info: v.type_info(), is_big_endian: be, payload_raw: r }).collect();
        Ok((vals.len() as u32, payload_from_args(&args)))
    }
}

struct Obs {
    paylen: usize,
    noar: u32,
    out: Vec<(u32, bool, i64, Vec<u8>)>,
    text: Option<Vec<u8>>,
}

fn run_real(enc: &str, be: bool, vals: &[Val], trunc: Option<usize>, corr: Option<(usize, bool, u32)>) -> Result<Obs, String> {
    run_with(be, &|| encode(enc, be, vals), trunc, corr)
}
fn run_shaped(via: &str, tops: &[Sh]) -> Result<Obs, String> {
    run_with(cfg!(target_endian = "big"), &|| encode_shaped(via, tops), None, None)
}

fn run_with(be: bool, encode_it: &dyn Fn() -> Result<(u32, Vec<u8>), String>, trunc: Option<usize>, corr: Option<(usize, bool, u32)>) -> Result<Obs, String> {
    catch(std::panic::AssertUnwindSafe(|| -> Result<Obs, String> {
        let (noar, mut payload) = encode_it()?;
        if let Some((off, is_ti, val)) = corr {
            let bytes: Vec<u8> = if is_ti {
                if be { val.to_be_bytes().to_vec() } else { val.to_le_bytes().to_vec() }
            } else if be {
                (val as u16).to_be_bytes().to_vec()
            } else {
                (val as u16).to_le_bytes().to_vec()
            };
            if off + bytes.len() <= payload.len() {
                payload[off..off + bytes.len()].copy_from_slice(&bytes);
            }
        }
        if let Some(k) = trunc {
            payload.truncate(k);
        }
        let msg = DltMessage {
            index: 0,
            reception_time_us: BASE_US,
            ecu: char4("ECU1"),
            timestamp_dms: 0,
            standard_header: DltStandardHeader { htyp: 0x21 | if be { 0x02 } else { 0 }, mcnt: 0, len: 0 },
            extended_header: Some(DltExtendedHeader { verb_mstp_mtin: 0x41, noar: noar.min(255) as u8, apid: char4("APID"), ctid: char4("CTID") }),
            payload,
            payload_text: None,
            lifecycle: 0,
        };
        let base = msg.payload.as_ptr() as usize;
        let mut out = Vec::new();
        for arg in &msg {
            let p = arg.payload_raw.as_ptr() as usize;
            let off = if p >= base && p - base <= msg.payload.len() { (p - base) as i64 } else { -1 };
            out.push((arg.type_info, arg.is_big_endian, off, arg.payload_raw.to_vec()));
            if out.len() >= 64 {
                break;
            }
        }
        let text = msg.payload_as_text().ok().map(|s| s.as_bytes().to_vec());
        Ok(Obs { paylen: msg.payload.len(), noar, out, text })
    }))
    .and_then(|r| r)
}

fn emit(t: &mut Trace, case: u64, src: &str, enc: &str, be: bool, mode: &str, cpos: usize, vals: &[Val], r: &Result<Obs, String>) {
    t.ev(json!({"ev":"reset","case":case,"hdr":{"src":src}}));
    match r {
        Ok(o) => t.ev(json!({
            "ev":"codec","enc":enc,"be":be,"mode":mode,"cpos":cpos,"noar":o.noar,"via":"plain","tops":Vec::<Value>::new(),
            "args_in": vals.iter().map(|v| v.json()).collect::<Vec<_>>(),
            "paylen": o.paylen,
            "args_out": o.out.iter().map(|(ti, b, off, raw)| json!({"ti":[ti & 0xffff, ti >> 16],"be":b,"off":off,"raw":raw})).collect::<Vec<_>>(),
            "text_ok": o.text.is_some(), "text": o.text.clone().unwrap_or_default(),
        })),
        Err(msg) if msg.starts_with("encoder error") => {
            // the encoder refused the input (returned Err): record what the 16-bit length fields would have had to carry
            let lens: Vec<usize> = vals.iter().map(|v| if v.is_num() || v.kind() == "bool" { 0 } else { v.raw_in_msg(be, enc).len() }).collect();
            t.ev(json!({"ev":"refused","msg":msg,"enc":enc,"be":be,"lens":lens,"via":"plain","tops":Vec::<Value>::new()}))
        }
        Err(msg) => t.ev(json!({"ev":"panic","msg":msg,"enc":enc,"be":be,"mode":mode,
                                "args_in": vals.iter().map(|v| v.json()).collect::<Vec<_>>()})),
    }
}

/// one case of values handed over as nested shapes: the trees go into the event, the contract derives the handed values itself
fn emit_shaped(t: &mut Trace, case: u64, src: &str, via: &str, tops: &[Sh], r: &Result<Obs, String>) {
    t.ev(json!({"ev":"reset","case":case,"hdr":{"src":src}}));
    let be = cfg!(target_endian = "big");
    let trees: Vec<Value> = tops.iter().map(|x| x.json()).collect();
    match r {
        Ok(o) => t.ev(json!({
            "ev":"codec","enc":"serde","be":be,"mode":"full","cpos":0,"noar":o.noar,"via":via,"tops":trees,
            "args_in": Vec::<Value>::new(), "paylen": o.paylen,
            "args_out": o.out.iter().map(|(ti, b, off, raw)| json!({"ti":[ti & 0xffff, ti >> 16],"be":b,"off":off,"raw":raw})).collect::<Vec<_>>(),
            "text_ok": o.text.is_some(), "text": o.text.clone().unwrap_or_default(),
        })),
        Err(msg) if msg.starts_with("encoder error") => {
            t.ev(json!({"ev":"refused","msg":msg,"enc":"serde","be":be,"lens":Vec::<u64>::new(),"via":via,"tops":trees}))
        }
        Err(msg) => t.ev(json!({"ev":"panic","msg":msg,"enc":"serde","be":be,"mode":"full","via":via,"tops":trees})),
    }
}

const ENCS: [(&str, bool); 3] = [("serde", cfg!(target_endian = "big")), ("pfa", false), ("pfa", true)];

fn main() {
    quiet_panics();
    let a = Args::from_env();
    let mut t = Trace::create(&a.str("--out", "trace.ndjson"));
    let mut rng = Rng::new(a.num("--seed", 1));
    let mut case = a.num("--first-case", 0);
    let sample_every = a.num("--sample-every", 50);
    let (mut replayed, mut fast, mut slow, mut drift, mut skipped, mut nontrivial) = (0u64, 0u64, 0u64, 0u64, 0u64, 0u64);
    let (mut shaped, mut shape_drift) = (0u64, 0u64);
    // a tree that deviates everywhere makes every scenario drift; the verdict only needs some of them: per family (mode / encoder /
    // entry point) the first --drift-cap drifting cases are recorded for TLC, after that every 50th up to another --drift-cap
    let drift_cap = a.num("--drift-cap", 150);
    let mut drift_seen = std::collections::BTreeMap::<String, u64>::new();
    let mut drift_unrecorded = 0u64;
    let mut record_drift = |fam: String| -> bool {
        let n = drift_seen.entry(fam).or_insert(0);
        *n += 1;
        let rec = *n <= drift_cap || (*n % 50 == 0 && *n / 50 <= drift_cap);
        if !rec {
            drift_unrecorded += 1;
        }
        rec
    };
    let mut hits = std::collections::BTreeMap::<String, u64>::new();
    let mut hit = |k: String| *hits.entry(k).or_insert(0) += 1;
    if let Some(f) = a.get("--scenarios") {
        for scn in read_ndjson(f) {
            let mode = scn["mode"].as_str().unwrap().to_string();
            let k = scn["k"].as_u64().unwrap() as usize;
            if mode == "shape" {
                // the scenario's values handed to the serde encoder as nested shapes; TLC predicts refusal (and error) or the slices
                let mut vals = Vec::new();
                for aj in scn["args"].as_array().unwrap() {
                    match pick_val(&mut rng, aj["kind"].as_str().unwrap(), aj["w"].as_u64().unwrap() as usize, aj["n"].as_u64().unwrap() as usize, "serde") {
                        Some(v) => vals.push(v),
                        None => break,
                    }
                }
                if vals.len() != scn["args"].as_array().unwrap().len() {
                    skipped += 1;
                    continue;
                }
                let via = scn["via"].as_str().unwrap();
                let tops: Vec<Sh> = scn["tops"].as_array().unwrap().iter().map(|j| Sh::from_scn(j, &vals)).collect();
                let r = run_shaped(via, &tops);
                replayed += 1;
                shaped += 1;
                hit(format!("via_{}", via));
                for x in &tops {
                    x.count_hits(&mut hit);
                }
                let be = cfg!(target_endian = "big");
                let same = match &r {
                    Ok(o) => {
                        let pred = scn["out"].as_array().unwrap();
                        let leaves = scn["leaves"].as_array().unwrap();
                        scn["ok"] == json!(true) && o.out.len() == pred.len() && o.paylen == k && o.text.is_some()
                            && o.out.iter().zip(pred.iter()).zip(leaves.iter()).all(|((ob, p), lf)| {
                                let si = lf["si"].as_u64().unwrap() as usize;
                                let want: Vec<u8> = match lf["src"].as_str().unwrap() {
                                    "arg" => vals[si - 1].raw_in_msg(be, "serde"),
                                    "name" => [NAMES[si - 1].as_bytes(), &[0u8]].concat(),
                                    _ => [CHARS[si - 1].to_string().as_bytes(), &[0u8]].concat(),
                                };
                                ob.0 as u64 == p["ti"].as_u64().unwrap() && ob.1 == be && ob.2 == p["off"].as_i64().unwrap()
                                    && ob.3.len() as u64 == p["len"].as_u64().unwrap() && ob.3 == want
                            })
                    }
                    Err(msg) => {
                        let want = match scn["err"].as_str().unwrap() {
                            "Nyi" => "encoder error: not yet implemented! (Nyi)",
                            "UnsupportedType" => "encoder error: unsupported type",
                            _ => "?",
                        };
                        scn["ok"] == json!(false) && msg == want
                    }
                };
                match &r {
                    Ok(o) => {
                        hit("shape_accepted".into());
                        if !o.out.is_empty() {
                            nontrivial += 1;
                        }
                    }
                    Err(m) if m.starts_with("encoder error") => hit(format!("shape_refused_{}", if m.contains("Nyi") { "nyi" } else if m.contains("unsupported") { "unsupported" } else { "other" })),
                    Err(_) => hit("shape_panic".into()),
                }
                if !same {
                    drift += 1;
                    shape_drift += 1;
                }
                if (!same && record_drift(format!("shape_{}_{}", via, if r.is_ok() { "acc" } else { "ref" }))) || shaped % sample_every == 0 {
                    emit_shaped(&mut t, case, "tlc", via, &tops, &r);
                    case += 1;
                    slow += 1;
                } else {
                    fast += 1;
                }
                continue;
            }
            for (enc, be) in ENCS {
                let mut vals = Vec::new();
                for aj in scn["args"].as_array().unwrap() {
                    match pick_val(&mut rng, aj["kind"].as_str().unwrap(), aj["w"].as_u64().unwrap() as usize, aj["n"].as_u64().unwrap() as usize, enc) {
                        Some(v) => vals.push(v),
                        None => break,
                    }
                }
                if vals.len() != scn["args"].as_array().unwrap().len() {
                    skipped += 1;
                    continue;
                }
                replayed += 1;
                for v in &vals {
                    hit(format!("{}{}", v.kind(), v.width()));
                }
                hit(format!("mode_{}", mode));
                hit(format!("enc_{}_{}", enc, if be { "be" } else { "le" }));
                if mode == "corrupt" {
                    let is_ti = scn["cfield"] == json!("TI");
                    let r = run_real(enc, be, &vals, None, Some((scn["coff"].as_u64().unwrap() as usize, is_ti, scn["cval"].as_u64().unwrap() as u32)));
                    emit(&mut t, case, "tlc", enc, be, "corrupt", scn["cpos"].as_u64().unwrap() as usize, &vals, &r);
                    case += 1;
                    slow += 1;
                    if matches!(&r, Ok(o) if !o.out.is_empty()) {
                        nontrivial += 1;
                    }
                    continue;
                }
                let r = run_real(enc, be, &vals, if mode == "full" { None } else { Some(k) }, None);
                // observation == TLC's prediction?  (equality only; a mismatch is never a verdict, it selects the slow path)
                let pred = scn["out"].as_array().unwrap();
                let same = match &r {
                    Ok(o) => {
                        o.out.len() == pred.len()
                            && o.out.iter().zip(pred.iter()).enumerate().all(|(i, (ob, p))| {
                                ob.0 as u64 == p["ti"].as_u64().unwrap() && ob.1 == be && ob.2 == p["off"].as_i64().unwrap()
                                    && ob.3.len() as u64 == p["len"].as_u64().unwrap() && ob.3 == vals[i].raw_in_msg(be, enc)
                            })
                            && o.paylen == k && o.text.is_some()
                    }
                    Err(_) => false,
                };
                if !same {
                    drift += 1;
                }
                if matches!(&r, Ok(o) if !o.out.is_empty()) {
                    nontrivial += 1;
                }
                if (!same && mode != "full" && record_drift(format!("{}_{}_{}", mode, enc, be))) || mode == "full" || replayed % sample_every == 0 {
                    emit(&mut t, case, "tlc", enc, be, &mode, 0, &vals, &r);
                    case += 1;
                    slow += 1;
                } else {
                    fast += 1;
                }
            }
        }
    }
    // directed cases: strings whose text is fixed only up to the rendering of their bytes >= 0x80 (ASCII-typed strings with
    // high bytes, UTF-8-typed strings that are not valid UTF-8): every HIGH_PREFIXES entry at the start / after one 7-bit
    // character, followed by 7-bit text, with / without terminator, alone and between other arguments, every encoder and
    // byte order (UTF-8-typed only through payload_from_args: the serde string encoder takes a &str)
    let mut directed = 0u64;
    if a.num("--directed", 0) > 0 {
        let bodies: [&[u8]; 7] = [b"ok", b"AB", b"A\0B", b"a b", b"x\ty\r\nz", b"", b"~ !"];
        let mut strings: Vec<Vec<u8>> = Vec::new();
        for pre in HIGH_PREFIXES {
            for lead in [&b""[..], &b"a"[..]] {
                for body in bodies {
                    for term in [true, false] {
                        let mut v = lead.to_vec();
                        v.extend_from_slice(pre);
                        v.extend_from_slice(body);
                        if term {
                            v.push(0);
                        }
                        strings.push(v);
                    }
                }
            }
        }
        for (enc, be) in ENCS {
            for utf8 in [false, true] {
                if utf8 && enc == "serde" {
                    continue;
                }
                for (si, sb) in strings.iter().enumerate() {
                    let s_val = || if utf8 { Val::StrU(sb.clone()) } else { Val::StrA(sb.clone()) };
                    let placements: Vec<Vec<Val>> = vec![
                        vec![s_val()],
                        vec![Val::U8(1), s_val()],
                        vec![s_val(), Val::Bool(si % 2 == 0)],
                        vec![Val::U16(513), s_val(), Val::Raw(vec![0xde, 0xad])],
                        vec![s_val(), Val::StrA(b"\xffz y\0".to_vec())],
                        vec![Val::StrA(b"a b\0".to_vec()), s_val(), Val::F32(1.5), s_val()],
                    ];
                    for (pi, vals) in placements.iter().enumerate() {
                        if utf8 && pi % 3 != (si % 3) {
                            continue; // UTF-8-typed: two placements per string
                        }
                        let r = run_real(enc, be, vals, None, None);
                        emit(&mut t, case, "directed", enc, be, "full", 0, vals, &r);
                        case += 1;
                        directed += 1;
                        hit(format!("directed_{}_{}_{}", if utf8 { "strU" } else { "strA" }, enc, if be { "be" } else { "le" }));
                        if pi == 0 && !utf8 {
                            hit(format!("strA_{}", if sb.starts_with(&[0xef, 0xbb, 0xbf]) { "starts_efbbbf" }
                                else if sb.starts_with(&[0xff, 0xfe]) { "starts_fffe" }
                                else if sb.starts_with(&[0xfe, 0xff]) { "starts_feff" }
                                else if sb[0] >= 0x80 { "starts_other_high" } else { "high_after_7bit" }));
                        }
                    }
                }
            }
        }
    }
    // directed nested shapes (always judged by the contract, whatever the sampling picks): one value per entry point and wrapper,
    // struct fields with numeric values, names between values, refused containers
    if a.num("--directed", 0) > 0 {
        let l = |v: Val| Sh::Leaf(v);
        let b = |x: Sh| Box::new(x);
        let mut list: Vec<(&str, Vec<Sh>)> = vec![
            ("d_struct", vec![Sh::Field(0, b(l(Val::U8(7))))]),
            ("d_struct", vec![Sh::Field(1, b(l(Val::I16(-2))))]),
            ("d_struct", vec![Sh::Field(2, b(l(Val::U32(500_000))))]),
            ("d_struct_variant", vec![Sh::Field(3, b(l(Val::I64(i64::MIN)))), Sh::Field(0, b(Sh::SomeV(b(l(Val::Bool(true))))))]),
            ("args", vec![Sh::SomeV(b(l(Val::U8(1)))), Sh::Newtype(b(l(Val::StrU(b"ab".to_vec())))), Sh::Char(1)]),
            ("args", vec![Sh::UnitVariant(0), l(Val::F32(1.5)), Sh::UnitVariant(3)]),
            ("args", vec![Sh::Wrapper(b(l(Val::Raw(b"a b\0".to_vec())))), Sh::Wrapper(b(Sh::SomeV(b(l(Val::Raw(vec![0xe4, b'x']))))))]),
            ("args", vec![Sh::Tuple(vec![l(Val::U8(1)), l(Val::U16(2))])]),
            ("args", vec![l(Val::U8(1)), Sh::Struct(vec![Sh::Field(0, b(l(Val::U8(2)))), Sh::Field(1, b(l(Val::U8(3))))])]),
            ("args", vec![Sh::Seq(vec![l(Val::I8(-1)); 3]), l(Val::Bool(false))]),
            ("args", vec![l(Val::U8(1)), Sh::NoneV]),
            ("args", vec![Sh::Wrapper(b(l(Val::U8(1))))]),
            ("to_payload", vec![Sh::SomeV(b(l(Val::F64(-2.25))))]),
            ("to_payload", vec![Sh::Newtype(b(l(Val::Raw(vec![1, 2, 3]))))]),
            ("to_payload", vec![Sh::Unit]),
        ];
        for via in &VIAS[2..7] {
            list.push((via, vec![l(Val::U16(513)), Sh::SomeV(b(l(Val::StrU(b"x y".to_vec())))), l(Val::Raw(vec![0xde, 0xad]))]));
        }
        for (via, tops) in &list {
            let r = run_shaped(via, tops);
            hit(format!("via_{}", via));
            for x in tops {
                x.count_hits(&mut hit);
            }
            emit_shaped(&mut t, case, "dshape", via, tops, &r);
            case += 1;
            directed += 1;
        }
    }
    // seeded random cases: longer sequences, every value class, random truncation / corruption
    let n_random = a.num("--random", 0);
    let n_huge = a.num("--huge", 0);
    let kinds: [(&str, usize); 14] = [("bool", 1), ("sint", 1), ("sint", 2), ("sint", 4), ("sint", 8), ("uint", 1), ("uint", 2), ("uint", 4),
                                      ("uint", 8), ("floa", 4), ("floa", 8), ("strU", 0), ("strA", 0), ("rawd", 0)];
    // sizes around the 16-bit limit of the length field, in priority order (the first --huge entries are used):
    // n = bytes the length field has to announce (the serde string encoder adds its terminator itself)
    let native_be = cfg!(target_endian = "big");
    let mut huge_combos: Vec<(&str, bool, &str, usize)> = vec![
        ("serde", native_be, "strU", 65536), ("serde", native_be, "strU", 65535), ("serde", native_be, "rawd", 65536),
        ("serde", native_be, "rawd", 65535), ("pfa", false, "strU", 65535), ("pfa", true, "rawd", 65535),
        ("serde", native_be, "strU", 65534), ("serde", native_be, "strA", 65536), ("serde", native_be, "strA", 65535),
    ];
    for n in [65533usize, 65534, 65535, 65536, 65537] {
        for kind in ["strU", "strA", "rawd"] {
            for (enc, be) in ENCS {
                if (enc == "serde" || n <= 65535) && !huge_combos.contains(&(enc, be, kind, n)) {
                    huge_combos.push((enc, be, kind, n));
                }
            }
        }
    }
    for r_i in 0..n_random {
        let huge = r_i < n_huge && (r_i as usize) < huge_combos.len();
        let (enc, be) = if huge { (huge_combos[r_i as usize].0, huge_combos[r_i as usize].1) } else { *rng.pick(&ENCS) };
        let nargs = if huge { rng.range(1, 2) } else { rng.range(0, 8) } as usize;
        let mut vals = Vec::new();
        while vals.len() < nargs {
            let (kind, w) = if huge && vals.is_empty() { (huge_combos[r_i as usize].2, 0usize) } else { *rng.pick(&kinds) };
            let n = if huge && vals.is_empty() {
                huge_combos[r_i as usize].3
            } else {
                match rng.below(6) {
                    0 => 0,
                    1 => 1,
                    2 => rng.range(2, 5) as usize,
                    _ => rng.range(1, 40) as usize,
                }
            };
            if let Some(v) = pick_val(&mut rng, kind, w, n, enc) {
                vals.push(v);
            }
        }
        for v in &vals {
            hit(format!("{}{}", v.kind(), v.width()));
        }
        let sizes: Vec<usize> = vals.iter().map(|v| 4 + if v.is_num() || v.kind() == "bool" { v.width() } else { 2 + v.raw_in_msg(be, enc).len() }).collect();
        let total: usize = sizes.iter().sum();
        let m = if huge { 0 } else { rng.below(10) };   // boundary sizes: always the untruncated round trip
        if m < 5 || vals.is_empty() {
            let r = run_real(enc, be, &vals, None, None);
            emit(&mut t, case, "random", enc, be, "full", 0, &vals, &r);
            hit("mode_full".into());
        } else if m < 8 {
            let k = rng.below(total as u64 + 1) as usize;
            let r = run_real(enc, be, &vals, Some(k), None);
            emit(&mut t, case, "random", enc, be, if k == total { "full" } else { "trunc" }, 0, &vals, &r);
            hit("mode_trunc".into());
        } else {
            let pos = rng.below(vals.len() as u64) as usize;
            let off: usize = sizes[..pos].iter().sum();
            let var = !(vals[pos].is_num() || vals[pos].kind() == "bool");
            let (o, is_ti, val) = if var && rng.chance(1, 2) {
                (off + 4, false, match rng.below(4) { 0 => 0, 1 => 0xffff, 2 => rng.below(64) as u32, _ => rng.below(0x10000) as u32 })
            } else {
                (off, true, match rng.below(3) { 0 => rng.next_u64() as u32, 1 => rng.below(0x2000) as u32, _ => (1u32 << rng.below(18)) | rng.below(16) as u32 })
            };
            let r = run_real(enc, be, &vals, None, Some((o, is_ti, val)));
            emit(&mut t, case, "random", enc, be, "corrupt", pos + 1, &vals, &r);
            hit("mode_corrupt".into());
        }
        case += 1;
    }
    // seeded random nested shapes: random trees (depth <= 3) over random values through a random entry point; no prediction,
    // the contract alone judges (it derives the handed values from the logged trees)
    let n_rshapes = a.num("--random-shapes", 0);
    for _ in 0..n_rshapes {
        let mut names = 0u32;
        let ntops = match rng.below(6) { 0 => 0, 1 | 2 => 1, 3 => 2, 4 => 3, _ => rng.range(4, 6) as usize };
        let mut tops: Vec<Sh> = (0..ntops).map(|_| random_tree(&mut rng, 3, &mut names)).collect();
        let via = match rng.below(10) {
            0 | 1 if ntops == 1 => "to_payload",
            2 | 3 => *rng.pick(&VIAS[2..]),
            _ => "args",
        };
        if via == "d_struct" || via == "d_struct_variant" {
            if names as usize + tops.len() > 4 {
                tops.truncate(4usize.saturating_sub(names as usize));
            }
            tops = tops.into_iter().enumerate().map(|(j, x)| Sh::Field(j % 4, Box::new(x))).collect();
        }
        let r = run_shaped(via, &tops);
        hit(format!("via_{}", via));
        for x in &tops {
            x.count_hits(&mut hit);
        }
        match &r {
            Ok(_) => hit("rshape_accepted".into()),
            Err(m) if m.starts_with("encoder error") => hit("rshape_refused".into()),
            Err(_) => hit("rshape_panic".into()),
        }
        emit_shaped(&mut t, case, "rshape", via, &tops, &r);
        case += 1;
    }
    t.flush();
    println!("{}", json!({"cases": case, "shaped_replayed": shaped, "shape_drift": shape_drift, "drift_unrecorded": drift_unrecorded, "random_shapes": n_rshapes, "lines": t.lines, "replayed": replayed, "fast_path": fast, "slow_path": slow + n_random + directed + n_rshapes,
                          "directed": directed,
                          "drift": drift, "skipped_not_encodable": skipped, "nontrivial_replayed": nontrivial, "hits": hits}));
}
