//! Shared by the C15 and C16 drivers: start the real `adlt remote` binary, talk to it over websockets
//! (tungstenite client), decode its binary frames. Nothing here knows what a correct answer is.
#![allow(dead_code)]
use adlt::utils::remote_types::BinType;
use std::io::Read;
use std::net::TcpStream;
use std::process::{Child, Command, Stdio};
use std::time::{Duration, Instant};
use tungstenite::{Message, WebSocket};
use vh::*;

pub fn free_port() -> u16 {
    let l = std::net::TcpListener::bind("127.0.0.1:0").expect("bind");
    l.local_addr().unwrap().port()
}

pub struct Server {
    pub child: Child,
    pub port: u16,
    pub stderr_path: String,
}

impl Server {
    /// start `adlt remote -p <free port>`; stderr/stdout go to a file under the work dir; TMPDIR under the work dir
    pub fn start(adlt: &str, work: &str, tag: &str, throttle: Option<&str>) -> Server {
        let tmp = format!("{}/tmp", work);
        std::fs::create_dir_all(&tmp).unwrap();
        for attempt in 0..20 {
            let port = free_port();
            let stderr_path = format!("{}/server-{}.stderr", work, tag);
            let f = std::fs::File::create(&stderr_path).unwrap();
            let f2 = f.try_clone().unwrap();
            let mut cmd = Command::new(adlt);
            cmd.args(["remote", "-p", &port.to_string()]).stdin(Stdio::null()).stdout(f2).stderr(f);
            cmd.env("TMPDIR", &tmp).env("TZ", "UTC").env("RUST_BACKTRACE", "0");
            match throttle {
                Some(t) => cmd.env("ADLT_VERIF_PARSE_THROTTLE", t),
                None => cmd.env_remove("ADLT_VERIF_PARSE_THROTTLE"),
            };
            let mut child = cmd.spawn().expect("spawn adlt");
            // connect-retry loop: the server needs a moment to listen
            let t0 = Instant::now();
            let mut ok = false;
            while t0.elapsed() < Duration::from_secs(20) {
                if let Ok(Some(_)) = child.try_wait() {
                    break; // exited (e.g. port taken): retry with another port
                }
                if TcpStream::connect(("127.0.0.1", port)).is_ok() {
                    ok = true;
                    break;
                }
                std::thread::sleep(Duration::from_millis(25));
            }
            if ok {
                return Server { child, port, stderr_path };
            }
            let _ = child.kill();
            let _ = child.wait();
            eprintln!("server start attempt {} failed", attempt);
        }
        panic!("cannot start adlt remote");
    }
    /// Some(exit status text) if the server process is no longer running
    pub fn exited(&mut self) -> Option<String> {
        match self.child.try_wait() {
            Ok(Some(st)) => Some(format!("{}", st)),
            _ => None,
        }
    }
    pub fn stop(&mut self) {
        let _ = self.child.kill();
        let _ = self.child.wait();
    }
    /// panic lines of the server's stderr: (location/message, count)
    pub fn panic_lines(&self) -> Vec<(String, u64)> {
        let mut s = String::new();
        if let Ok(mut f) = std::fs::File::open(&self.stderr_path) {
            let mut b = Vec::new();
            let _ = f.read_to_end(&mut b);
            s = String::from_utf8_lossy(&b).to_string();
        }
        let mut res: Vec<(String, u64)> = Vec::new();
        let lines: Vec<&str> = s.lines().collect();
        for (i, l) in lines.iter().enumerate() {
            if l.contains("panicked at") {
                let mut t = l.trim().to_string();
                if let Some(n) = lines.get(i + 1) {
                    t.push_str(" | ");
                    t.push_str(n.trim());
                }
                // thread ids differ: cut the "thread '<unnamed>' (123) " prefix
                let key = t[t.find("panicked at").unwrap()..].chars().take(300).collect::<String>();
                if let Some(e) = res.iter_mut().find(|e| e.0 == key) {
                    e.1 += 1;
                } else {
                    res.push((key, 1));
                }
            }
        }
        res
    }
}

pub enum Frame {
    Text(String),
    Bin(Vec<u8>),
    Closed(String),
    Timeout,
}

pub struct Conn {
    pub ws: WebSocket<TcpStream>,
}

impl Conn {
    pub fn connect(port: u16, retry_for: Duration) -> Result<Conn, String> {
        let t0 = Instant::now();
        loop {
            let r = TcpStream::connect(("127.0.0.1", port)).map_err(|e| e.to_string()).and_then(|s| {
                let _ = s.set_nodelay(true);
                s.set_read_timeout(Some(Duration::from_secs(30))).unwrap();
                // no client-side limits: frames of any size the server sends are read
                let cfg = tungstenite::protocol::WebSocketConfig { max_send_queue: None, max_message_size: None, max_frame_size: None, accept_unmasked_frames: false };
                tungstenite::client::client_with_config(format!("ws://127.0.0.1:{}/", port), s, Some(cfg)).map_err(|e| e.to_string())
            });
            match r {
                Ok((ws, _resp)) => return Ok(Conn { ws }),
                Err(e) => {
                    if t0.elapsed() > retry_for {
                        return Err(e);
                    }
                    std::thread::sleep(Duration::from_millis(30));
                }
            }
        }
    }
    pub fn send(&mut self, text: &str) -> Result<(), String> {
        self.ws.write_message(Message::Text(text.to_string())).map_err(|e| e.to_string())
    }
    /// next frame, or Timeout when nothing arrived within `wait`
    pub fn recv(&mut self, wait: Duration) -> Frame {
        let deadline = Instant::now() + wait;
        loop {
            let left = deadline.saturating_duration_since(Instant::now());
            let slice = if left < Duration::from_millis(1) { Duration::from_millis(1) } else { left };
            let _ = self.ws.get_ref().set_read_timeout(Some(slice));
            match self.ws.read_message() {
                Ok(Message::Text(t)) => return Frame::Text(t),
                Ok(Message::Binary(b)) => return Frame::Bin(b),
                Ok(Message::Close(c)) => return Frame::Closed(format!("close frame {:?}", c)),
                Ok(_) => continue,
                Err(tungstenite::Error::Io(ref e))
                    if e.kind() == std::io::ErrorKind::WouldBlock || e.kind() == std::io::ErrorKind::TimedOut =>
                {
                    if Instant::now() >= deadline {
                        return Frame::Timeout;
                    }
                }
                Err(e) => return Frame::Closed(e.to_string()),
            }
        }
    }
    pub fn close(mut self) {
        let _ = self.ws.close(None);
        let _ = self.ws.write_pending();
    }
}

pub const BINCODE_CONFIG: bincode::config::Configuration<bincode::config::LittleEndian, bincode::config::Fixint, bincode::config::NoLimit> =
    bincode::config::legacy();

pub fn decode(b: &[u8]) -> Option<BinType<'_>> {
    bincode::decode_from_slice::<BinType, _>(b, BINCODE_CONFIG).ok().map(|x| x.0)
}

pub fn char4_str(v: u32) -> String {
    let b = v.to_le_bytes();
    b.iter().take_while(|c| **c != 0).map(|c| *c as char).collect()
}

/// classification of a text frame: ("ok"|"err"|"unknown"|"async"|"other", verb named by the reply, announced id, echoed old id)
pub fn classify_text(t: &str) -> (&'static str, String, u64, u64) {
    let (pol, rest) = if let Some(r) = t.strip_prefix("ok:") {
        ("ok", r)
    } else if let Some(r) = t.strip_prefix("err:") {
        ("err", r)
    } else if t.starts_with("unknown command") {
        return ("unknown", String::new(), 0, 0);
    } else if t.starts_with("stream:") {
        return ("async", String::new(), 0, 0);
    } else {
        return ("other", String::new(), 0, 0);
    };
    let rest = rest.trim_start().trim_start_matches('\'');
    let verb: String = rest.chars().take_while(|c| c.is_ascii_alphanumeric() || *c == '_').collect();
    let mut id = 0u64;
    let mut old = 0u64;
    if pol == "ok" {
        let after = &rest[verb.len()..];
        // "<verb> <old>={json}" or "<verb> {json}"
        if let Some(eq) = after.find('=') {
            old = after[..eq].trim().parse().unwrap_or(0);
        }
        if let Some(b) = after.find('{') {
            if let Ok(v) = serde_json::from_str::<Value>(&after[b..]) {
                id = v["id"].as_u64().unwrap_or(0);
            }
        }
    }
    (pol, verb, id, old)
}

pub fn trunc(s: &str, n: usize) -> String {
    s.chars().take(n).collect()
}

// ------------------------------------------------------------------------------------------ DLT test files
use adlt::dlt::{DltExtendedHeader, DltMessage, DltStandardHeader};

/// abstract description of one generated message (what the statement of C16 lists: index, times, ids, counter, text)
#[derive(Clone, Debug)]
pub struct GenMsg {
    pub ecu: String,
    pub apid: String,
    pub ctid: String,
    pub t_ms: u64, // reception time relative to BASE_US in ms; timestamp = same offset (constant delay 0)
    pub mcnt: u8,
    pub text: String,
    pub ts_dms: u64, // timestamp in 0.1 ms; 0 = the reception offset (t_ms * 10); else a message delivered late (timestamp earlier)
}
impl GenMsg {
    pub fn ts(&self) -> u64 {
        if self.ts_dms > 0 { self.ts_dms } else { self.t_ms * 10 }
    }
}

pub fn verbose_string_payload(text: &str) -> Vec<u8> {
    let mut p = Vec::new();
    p.extend_from_slice(&0x0000_0200u32.to_le_bytes()); // DLT_TYPE_INFO_STRG, ascii
    p.extend_from_slice(&((text.len() + 1) as u16).to_le_bytes());
    p.extend_from_slice(text.as_bytes());
    p.push(0);
    p
}

pub fn to_dlt(i: usize, g: &GenMsg) -> DltMessage {
    DltMessage {
        index: i as u32,
        reception_time_us: BASE_US + g.t_ms * 1000,
        ecu: char4(&g.ecu),
        timestamp_dms: g.ts() as u32,
        standard_header: DltStandardHeader { htyp: 0x21 | 0x10, mcnt: g.mcnt, len: 0 },
        extended_header: Some(DltExtendedHeader { verb_mstp_mtin: 0x41, noar: 1, apid: char4(&g.apid), ctid: char4(&g.ctid) }),
        payload: verbose_string_payload(&g.text),
        payload_text: None,
        lifecycle: 0,
    }
}

/// seeded log: strictly increasing times, several ECUs/APIDs/CTIDs, distinct payload texts
pub fn gen_log(rng: &mut Rng, n: usize, ecus: &[&str], apids: &[&str], ctids: &[&str]) -> Vec<GenMsg> {
    gen_log_dt(rng, n, ecus, apids, ctids, 1, 5)
}

/// like gen_log with time steps of dt_lo..=dt_hi ms. The lifecycle detection holds messages back until the
/// timestamps of every ECU span more than 60 s; with steps of some 100 ms the later part of a log streams through
/// as it is parsed (several arrival batches), the first part arrives as one burst.
pub fn gen_log_dt(rng: &mut Rng, n: usize, ecus: &[&str], apids: &[&str], ctids: &[&str], dt_lo: u64, dt_hi: u64) -> Vec<GenMsg> {
    let mut t = 1000u64;
    (0..n)
        .map(|i| {
            t += rng.range(dt_lo, dt_hi);
            GenMsg {
                ecu: rng.pick(ecus).to_string(),
                apid: rng.pick(apids).to_string(),
                ctid: rng.pick(ctids).to_string(),
                t_ms: t,
                mcnt: (i % 256) as u8,
                text: format!("msg {} of the log v{}", i, rng.below(1000)),
                ts_dms: 0,
            }
        })
        .collect()
}

pub fn write_log(path: &str, log: &[GenMsg]) {
    let mut w = std::io::BufWriter::new(std::fs::File::create(path).expect("create dlt"));
    for (i, g) in log.iter().enumerate() {
        to_dlt(i, g).to_write(&mut w).expect("write dlt");
    }
    use std::io::Write;
    w.flush().unwrap();
}
