//! X04 driver: text-log converters (CAN ASC, Android logcat, generic logs -> DLT messages).
//!
//! A case = one namespace and 1..n abstract files (TextConvDefs.tla describes the abstract lines). The driver renders every
//! abstract line as text, runs the REAL iterators (directly or through utils::get_dlt_message_iterator) and records every
//! yielded message as one `msg` event (field copies; control payloads decoded into their fields). Cases come from TLC
//! (scenarios with predicted messages: equal observation => fast path) or from the seeded random generator (always traced).
//! No expected value is computed here.
use adlt::dlt::{DltMessage, DltMessageControlType, DltMessageType};
use adlt::utils::{
    get_dlt_message_iterator, get_new_namespace, Asc2DltMsgIterator, GenLog2DltMsgIterator, LogCat2DltMsgIterator, LowMarkBufReader,
};
use std::collections::BTreeMap;
use vh::*;

const HUGE: u64 = 2_000_000_001; // TLC integers are 32-bit: larger values are reported as this sentinel

fn clamp(v: u64) -> u64 {
    if v > 2_000_000_000 { HUGE } else { v }
}
fn u(v: &Value, k: &str) -> u64 {
    v[k].as_u64().unwrap_or_else(|| panic!("field {} missing in {}", k, v))
}
fn b(v: &Value, k: &str) -> bool {
    v[k].as_bool().unwrap_or_else(|| panic!("field {} missing in {}", k, v))
}
fn st<'a>(v: &'a Value, k: &str) -> &'a str {
    v[k].as_str().unwrap_or_else(|| panic!("field {} missing in {}", k, v))
}
fn chars(v: &Value, k: &str) -> String {
    v[k].as_array().unwrap_or_else(|| panic!("field {} missing in {}", k, v)).iter().map(|c| c.as_str().unwrap()).collect()
}
fn sp(n: u64) -> String {
    " ".repeat(n as usize)
}

const WD: [&str; 7] = ["Sun", "Mon", "Tue", "Wed", "Thu", "Fri", "Sat"];
const MON: [&str; 12] = ["Jan", "Feb", "Mar", "Apr", "May", "Jun", "Jul", "Aug", "Sep", "Oct", "Nov", "Dec"];
const ASC_OTHER: [&str; 9] = [
    "base hex  timestamps absolute",
    "   6.836299 TriggerEvent: TriggerBlock[Logging] Start DirectLogging",
    "",
    "// version 12.0.0",
    "Begin Triggerblock Fri Apr 26 06:52:12.825 pm 2024",
    "End TriggerBlock",
    "no internal events logged",
    "   6.836299    SV: 2 0 1 ::ZST::BusType = 0",
    "// Measurement UUID: 17f89a60-b92d-49fb-8662-53318bf3fde2",
];
const LC_OTHER: [&str; 4] = ["--------- beginning of main", "", "logcat -b all", "console:/ # logcat -b all"];
const GL_OTHER: [&str; 4] = [
    "-------------------------------- live log setup --------------------------------",
    "  continuation of the previous record",
    "",
    "Traceback (most recent call last):",
];

fn asc_ts(l: &Value) -> String {
    format!("{}{}.{:06}", if b(l, "neg") { "-" } else { "" }, u(l, "s"), u(l, "us"))
}
fn asc_id(l: &Value) -> String {
    let id = u(l, "id");
    let s = if b(l, "up") { format!("{:X}", id) } else { format!("{:x}", id) };
    if b(l, "ext") { s + "x" } else { s }
}
fn hexdata(l: &Value, upper: bool) -> String {
    l["data"].as_array().unwrap().iter().map(|x| if upper { format!(" {:02X}", x.as_u64().unwrap()) } else { format!(" {:02x}", x.as_u64().unwrap()) }).collect()
}

/// abstract line -> text (the concretisation; the same for TLC scenarios and random cases)
fn render(kind: &str, l: &Value) -> String {
    let k = st(l, "k");
    match (kind, k) {
        ("asc", "date") => {
            let hh = u(l, "hh");
            let h12 = if hh % 12 == 0 { 12 } else { hh % 12 };
            let ampm = match (hh >= 12, b(l, "lower")) { (false, false) => "AM", (true, false) => "PM", (false, true) => "am", (true, true) => "pm" };
            let frac = if b(l, "frac") { format!(".{:03}", u(l, "ms")) } else { String::new() };
            format!("date {} {} {:02} {:02}:{:02}:{:02}{} {} {}", WD[u(l, "wd") as usize], MON[u(l, "mo") as usize - 1], u(l, "d"), h12, u(l, "mi"),
                u(l, "ss"), frac, ampm, u(l, "y"))
        }
        ("asc", "other") => ASC_OTHER[u(l, "v") as usize].to_string(),
        ("asc", "map") => format!("//BusMapping: {} {} = {}", if b(l, "fd") { "CANFD" } else { "CAN" }, u(l, "ch"), chars(l, "name")),
        ("asc", "can") => {
            let dir = if b(l, "tx") { "Tx" } else { "Rx" };
            let id = u(l, "id");
            if u(l, "ws") == 0 {
                let trail = match u(l, "trail") { 0 => String::new(), 1 => " ".to_string(), _ => format!(" Length = 0 BitCount = 0 ID = {}", id) };
                format!("{} {} {} {} d {}{}{}", asc_ts(l), u(l, "ch"), asc_id(l), dir, u(l, "dlc"), hexdata(l, false), trail)
            } else {
                let trail = match u(l, "trail") { 0 => String::new(), 1 => "  ".to_string(), _ => format!("  Length = 241910 BitCount = 125 ID = {}{}", id, if b(l, "ext") { "x" } else { "" }) };
                format!("   {} {}  {:<16}{}   d {}{}{}", asc_ts(l), u(l, "ch"), asc_id(l), dir, u(l, "dlc"), hexdata(l, true), trail)
            }
        }
        ("asc", "canfd") => {
            let dir = if b(l, "tx") { "Tx" } else { "Rx" };
            let trail = match u(l, "trail") { 0 => "", 1 => " ", _ => " 0 0 3000 0 0 0 0 0" };
            format!("{} CANFD {} {} {}   {} {} {:x} {}{}{}", asc_ts(l), u(l, "ch"), dir, asc_id(l), u(l, "brs"), u(l, "esi"), u(l, "dlc"), u(l, "len"),
                hexdata(l, false), trail)
        }
        ("asc", "err") => format!("{} CANFD {} {} ErrorFrame                                                 0 0 0 Data 0 0 0 0 0 0 0 11 0 0 0 0 0",
            asc_ts(l), u(l, "ch"), if b(l, "tx") { "Tx" } else { "Rx" }),
        ("logcat", "mono") | ("logcat", "tt") => {
            let pad = u(l, "pad");
            let ts = if k == "mono" {
                let fd = u(l, "fd") as usize;
                format!("{}{}.{:0fd$}", sp(4 * pad), u(l, "s"), u(l, "fr"), fd = fd)
            } else {
                format!("{:02}-{:02} {:02}:{:02}:{:02}.{:03}", u(l, "mo"), u(l, "d"), u(l, "hh"), u(l, "mi"), u(l, "ss"), u(l, "ms"))
            };
            format!("{} {}{}{}{} {} {}{}: {}", ts, sp(2 * pad), u(l, "pid"), sp(1 + 2 * pad), u(l, "tid"), st(l, "lvl"), chars(l, "tag"), sp(u(l, "tagpad")), st(l, "msg"))
        }
        ("logcat", "other") => LC_OTHER[u(l, "v") as usize].to_string(),
        ("genlog", "rec") => format!("[{}-{:02}-{:02} {:02}:{:02}:{:02}.{:03}] [{}] [{}] {}", u(l, "y"), u(l, "mo"), u(l, "d"), u(l, "hh"), u(l, "mi"), u(l, "ss"),
            u(l, "ms"), st(l, "lvl"), chars(l, "tag"), st(l, "msg")),
        ("genlog", "other") => GL_OTHER[u(l, "v") as usize].to_string(),
        _ => panic!("unknown line {} for {}", l, kind),
    }
}

fn t_us(v: &Value) -> u64 {
    u(v, "s") * 1_000_000 + u(v, "us")
}

/// one yielded message -> event (field copies; a control payload is split into its fields)
fn project(m: &DltMessage) -> Value {
    let (mstp, verb, mtin, noar) = match &m.extended_header {
        Some(e) => {
            let mstp = match m.mstp() {
                DltMessageType::Log(_) => "log",
                DltMessageType::Control(DltMessageControlType::Response) => "ctrl",
                DltMessageType::Control(_) => "ctrlreq",
                DltMessageType::NwTrace(_) => "nw",
                _ => "other",
            };
            (mstp, e.verb_mstp_mtin & 1 == 1, (e.verb_mstp_mtin >> 4) as u64, e.noar as u64)
        }
        None => ("none", false, 0, 0),
    };
    let p = &m.payload;
    let (mut id, mut data): (u64, Vec<u64>) = (0, vec![]);
    let (mut svc, mut cst, mut cnt, mut papid, mut nctx, mut desc, mut cwf) = (0u64, 0u64, 0u64, String::new(), 0u64, String::new(), true);
    if mstp == "nw" {
        if p.len() >= 4 {
            id = clamp(u32::from_ne_bytes([p[0], p[1], p[2], p[3]]) as u64);
            data = p[4..].iter().map(|x| *x as u64).collect();
        } else {
            data = p.iter().map(|x| *x as u64).collect();
        }
    } else if mstp == "ctrl" {
        if p.len() >= 15 {
            svc = clamp(u32::from_ne_bytes([p[0], p[1], p[2], p[3]]) as u64);
            cst = p[4] as u64;
            cnt = u16::from_ne_bytes([p[5], p[6]]) as u64;
            papid = String::from_utf8_lossy(&p[7..11]).trim_end_matches('\0').to_string();
            nctx = u16::from_ne_bytes([p[11], p[12]]) as u64;
            let dl = u16::from_ne_bytes([p[13], p[14]]) as usize;
            cwf = p.len() == 15 + dl;
            desc = String::from_utf8_lossy(&p[15..]).to_string();
        } else {
            cwf = false;
        }
    } else if !p.is_empty() {
        data = p.iter().map(|x| *x as u64).collect();
    }
    json!({"ev":"msg","index":m.index,"mcnt":m.standard_header.mcnt,"htyp":m.standard_header.htyp,"len":m.standard_header.len,
        "rx_s":clamp(m.reception_time_us / 1_000_000),"rx_us":m.reception_time_us % 1_000_000,"dms":clamp(m.timestamp_dms as u64),
        "ecu":m.ecu.to_string(),"apid":m.apid().map(|a| a.to_string()).unwrap_or_default(),"ctid":m.ctid().map(|a| a.to_string()).unwrap_or_default(),
        "mstp":mstp,"mtin":mtin,"verb":verb,"noar":noar,"plen":p.len(),"id":id,"data":data,
        "hastext":m.payload_text.is_some(),"text":m.payload_text.clone().unwrap_or_default(),
        "svc":svc,"cst":cst,"cnt":cnt,"papid":papid,"nctx":nctx,"desc":desc,"cwf":cwf})
}

struct FileRun {
    msgs: Vec<Value>,
    end: &'static str,
    panic_msg: String,
}

/// convert one file with a fresh iterator in namespace `ns`
fn run_file(kind: &str, fh: &Value, ns: u32, via: u64, crlf: bool, last_nl: bool) -> FileRun {
    let lines: Vec<String> = fh["lines"].as_array().unwrap().iter().map(|l| render(kind, l)).collect();
    let eol = if crlf { "\r\n" } else { "\n" };
    let mut text = lines.join(eol);
    if last_nl && !lines.is_empty() {
        text.push_str(eol);
    }
    let start = u(fh, "start") as u32;
    let reft = if b(fh, "hasref") { Some(t_us(&fh["ref"])) } else { None };
    let modt = Some(t_us(&fh["mod"]));
    let nlines = lines.len();
    let mut msgs = Vec::new();
    let res = catch(std::panic::AssertUnwindSafe(|| {
        let bytes = text.as_bytes();
        let cur = std::io::Cursor::new(bytes);
        let it: Box<dyn Iterator<Item = DltMessage>> = match via {
            // the front-end that picks the converter by file extension
            1 => get_dlt_message_iterator(match kind { "asc" => "asc", "logcat" => "txt", _ => "log" }, start, std::io::BufReader::new(cur), ns, reft, modt, None),
            2 => {
                let rd = LowMarkBufReader::new(cur, 512 * 1024, 65536 + 16);
                match kind {
                    "asc" => Box::new(Asc2DltMsgIterator::new(start, rd, ns, reft, None)),
                    "logcat" => Box::new(LogCat2DltMsgIterator::new(start, rd, ns, reft, modt, None)),
                    _ => Box::new(GenLog2DltMsgIterator::new(start, rd, ns, reft, modt, None)),
                }
            }
            _ => {
                let rd = std::io::BufReader::with_capacity(64, cur);
                match kind {
                    "asc" => Box::new(Asc2DltMsgIterator::new(start, rd, ns, reft, None)),
                    "logcat" => Box::new(LogCat2DltMsgIterator::new(start, rd, ns, reft, modt, None)),
                    _ => Box::new(GenLog2DltMsgIterator::new(start, rd, ns, reft, modt, None)),
                }
            }
        };
        for m in it.take(2 * nlines + 8) {
            msgs.push(project(&m));
        }
    }));
    match res {
        Ok(()) => FileRun { msgs, end: "eof", panic_msg: String::new() },
        Err(e) => FileRun { msgs, end: "panic", panic_msg: e },
    }
}

fn fresh_ns(want_mod: Option<u32>) -> u32 {
    loop {
        let ns = get_new_namespace();
        match want_mod { Some(w) if ns % 100 != w => continue, _ => return ns }
    }
}

struct CaseRun {
    ns: u32,
    files: Vec<FileRun>,
}
fn run_case(kind: &str, files: &[Value], want_mod: Option<u32>, via: u64, crlf: bool, last_nl: bool) -> CaseRun {
    let ns = fresh_ns(want_mod);
    let mut out = Vec::new();
    for fh in files {
        let r = run_file(kind, fh, ns, via, crlf, last_nl);
        let stop = r.end == "panic";
        out.push(r);
        if stop {
            break; // like the model: a case ends at a panic
        }
    }
    CaseRun { ns, files: out }
}

fn write_case(t: &mut Trace, case: u64, kind: &str, src: &str, files: &[Value], run: &CaseRun, via: u64, crlf: bool) {
    t.ev(json!({"ev":"reset","case":case,"hdr":{"kind":kind,"src":src,"nsmod":run.ns % 100,"via":via,"crlf":crlf,"files":files}}));
    for (i, f) in run.files.iter().enumerate() {
        t.ev(json!({"ev":"file","f":i + 1}));
        for m in &f.msgs {
            t.ev(m.clone());
        }
        if f.end == "eof" {
            t.ev(json!({"ev":"eof","f":i + 1}));
        } else {
            t.ev(json!({"ev":"panic","f":i + 1,"msg":f.panic_msg}));
        }
    }
}

// ------------------------------------------------------------------------------------------------ random cases
fn tagchars(s: &str) -> Value {
    Value::Array(s.chars().map(|c| Value::String(c.to_string())).collect())
}
fn days_from_civil(y: i64, m: i64, d: i64) -> i64 {
    let y = if m <= 2 { y - 1 } else { y };
    let era = if y >= 0 { y } else { y - 399 } / 400;
    let yoe = y - era * 400;
    let doy = (153 * ((m + 9) % 12) + 2) / 5 + d - 1;
    let doe = yoe * 365 + yoe / 4 - yoe / 100 + doy;
    era * 146097 + doe - 719468
}
fn civil_from_days(z: i64) -> (i64, i64, i64) {
    let z = z + 719468;
    let era = if z >= 0 { z } else { z - 146096 } / 146097;
    let doe = z - era * 146097;
    let yoe = (doe - doe / 1460 + doe / 36524 - doe / 146096) / 365;
    let y = yoe + era * 400;
    let doy = doe - (365 * yoe + yoe / 4 - yoe / 100);
    let mp = (5 * doy + 2) / 153;
    let d = doy - (153 * mp + 2) / 5 + 1;
    let m = if mp < 10 { mp + 3 } else { mp - 9 };
    (if m <= 2 { y + 1 } else { y }, m, d)
}
/// calendar fields of an epoch second (input generation only)
fn civil(s: i64) -> (i64, i64, i64, i64, i64, i64, i64) {
    let days = s.div_euclid(86400);
    let r = s.rem_euclid(86400);
    let (y, m, d) = civil_from_days(days);
    (y, m, d, r / 3600, (r / 60) % 60, r % 60, (days + 4).rem_euclid(7))
}

const TAGS: [&str; 24] = [
    "LMHAL", "NAVD", "auditd", "chatty", "TimeManagerProxyHAL", "LogManager1", "LogManager2", "LogManager3", "ActivityManager", "ActivityMonitor",
    "a_b_c", "abc", "abc1", "snake_case", "snake_case2", "snake_cake", "xtf_common.process.process_wrapper", "xtf_common.proc", "conftest",
    "conf", "Ab", "x", "wifi-service", "vendor.qti.hardware.display.composer-service",
];
const WORDS: [&str; 16] = ["start", "stop", "type=1400", "audit(0.0:35):", "avc:", "denied", "{ open }", "uid=0(root)", "state: ok", "[x]", "RAM 3.44 %",
    "path=/data/x", "a=b", "(null)", "<<", "done."];
fn rnd_msg(r: &mut Rng) -> String {
    let n = r.range(1, 6);
    (0..n).map(|_| *r.pick(&WORDS)).collect::<Vec<_>>().join(" ")
}

fn rnd_asc_file(r: &mut Rng, max_lines: u64, base_s: i64, start: u64, paths: &mut BTreeMap<String, u64>) -> Value {
    let mut lines: Vec<Value> = Vec::new();
    let dated = !r.chance(1, 8);
    let date_line = |s: i64, r: &mut Rng| {
        let (y, mo, d, hh, mi, ss, wd) = civil(s);
        json!({"k":"date","y":y,"mo":mo,"d":d,"hh":hh,"mi":mi,"ss":ss,"ms":if r.chance(1,2) {r.below(1000)} else {0},"frac":r.chance(1,2),"lower":r.chance(1,2),"wd":wd})
    };
    let mut date_s = base_s + r.below(100_000) as i64;
    let mut first_date: Option<Value> = None;
    if dated {
        let mut dl = date_line(date_s, r);
        if !b(&dl, "frac") { dl["ms"] = json!(0); }
        first_date = Some(dl.clone());
        lines.push(dl);
    }
    for v in [0u64, 6, 3, 8] {
        if r.chance(1, 2) { lines.push(json!({"k":"other","v":v})); }
    }
    let nch = r.range(1, 4);
    let chans: Vec<u64> = (0..nch).map(|i| if r.chance(1, 6) { r.range(1, 255) } else { i + 1 }).collect();
    let names = ["IuK_CAN", "ECU_CAN_FD 559", "BODY", "PT-CAN", "ZSG", "ECU2_CAN 432"];
    let mut mapped = std::collections::BTreeSet::new();
    for c in &chans {
        if r.chance(1, 2) && mapped.insert(*c) {
            lines.push(json!({"k":"map","fd":r.chance(1,2),"ch":c,"name":tagchars(*r.pick(&names))}));
            *paths.entry("rnd_asc_map".into()).or_default() += 1;
        }
    }
    if r.chance(1, 3) { lines.push(json!({"k":"other","v":4})); lines.push(json!({"k":"other","v":1})); }
    // non-decreasing offsets, possibly starting before the trigger (negative)
    let n = r.range(0, max_lines);
    let mut t: i64 = if r.chance(1, 3) { -(r.below(3_000_000) as i64) } else { r.below(5_000_000) as i64 };
    let allow_kf = r.chance(1, 4);
    for _ in 0..n {
        t += match r.below(40) { 0..=9 => 0, 10..=19 => r.below(300) as i64, 20..=29 => r.below(20_000) as i64, 30 => r.below(20_000_000_000) as i64, _ => r.below(3_000_000) as i64 };
        if t > 100_000_000_000 { t = 100_000_000_000; }
        if t == 0 && r.chance(1, 2) { t = 1; }
        let neg = t < 0;
        let (s, us) = ((t.abs() / 1_000_000) as u64, (t.abs() % 1_000_000) as u64);
        let ch = *r.pick(&chans);
        let ext = r.chance(1, 3);
        let mut id = if ext { r.below(0x2000_0000) } else { r.below(0x800) };
        // upper-case hex ids (finding) only in some files and never on negative offsets; such an id contains a hex letter
        let up = allow_kf && !neg && r.chance(1, 5);
        if up && !format!("{:x}", id).chars().any(|c| c.is_ascii_alphabetic()) { id |= 0xa; }
        let trail = if allow_kf && r.chance(1, 6) { 0 } else if r.chance(1, 8) { 1 } else { 2 };
        match r.below(10) {
            0 => { lines.push(json!({"k":"err","neg":neg,"s":s,"us":us,"ch":ch,"tx":r.chance(1,4)})); *paths.entry("rnd_asc_err".into()).or_default() += 1; }
            1 | 2 | 3 => {
                let lens = [0u64, 1, 2, 8, 12, 16, 20, 24, 32, 48, 64];
                let len = *r.pick(&lens);
                let dlc = match len { 0..=8 => len, 12 => 9, 16 => 10, 20 => 11, 24 => 12, 32 => 13, 48 => 14, _ => 15 };
                lines.push(json!({"k":"canfd","neg":neg,"s":s,"us":us,"ch":ch,"id":id,"ext":ext,"up":up,"tx":r.chance(1,4),"brs":r.below(2),"esi":r.below(2),
                    "dlc":dlc,"len":len,"data":r.bytes(len as usize),"trail":trail}));
                *paths.entry("rnd_asc_canfd".into()).or_default() += 1;
            }
            _ => {
                let dlc = if r.chance(1, 8) { 0 } else { r.range(1, 8) };
                lines.push(json!({"k":"can","neg":neg,"s":s,"us":us,"ch":ch,"id":id,"ext":ext,"up":up,"tx":r.chance(1,4),"dlc":dlc,"data":r.bytes(dlc as usize),
                    "trail":trail,"ws":if r.chance(1,3) {1} else {0}}));
                *paths.entry("rnd_asc_can".into()).or_default() += 1;
            }
        }
        if neg { *paths.entry("rnd_asc_negative_offset".into()).or_default() += 1; }
        if up { *paths.entry("rnd_asc_upper_id".into()).or_default() += 1; }
        if r.chance(1, 25) { lines.push(json!({"k":"other","v":*r.pick(&[1u64, 2, 7])})); }
        // a second recording appended to the file: a new date line starts a new time base
        if dated && r.chance(1, 60) {
            date_s += (t.max(0) / 1_000_000) + 1 + r.below(3600) as i64;
            let mut dl = date_line(date_s, r);
            if !b(&dl, "frac") { dl["ms"] = json!(0); }
            lines.push(dl);
            t = if r.chance(1, 3) { -(r.below(2_000_000) as i64) } else { r.below(2_000_000) as i64 };
            *paths.entry("rnd_asc_second_date".into()).or_default() += 1;
        }
    }
    if r.chance(1, 3) { lines.push(json!({"k":"other","v":5})); }
    // reference time: the start of an earlier recording (before every date of this file)
    let hasref = dated && r.chance(1, 3);
    let refv = if hasref {
        *paths.entry("rnd_asc_reference_time".into()).or_default() += 1;
        let fd = first_date.unwrap();
        let fs = days_from_civil(u(&fd, "y") as i64, u(&fd, "mo") as i64, u(&fd, "d") as i64) * 86400 + (u(&fd, "hh") * 3600 + u(&fd, "mi") * 60 + u(&fd, "ss")) as i64;
        json!({"s": fs - 1 - r.below(5000) as i64, "us": r.below(1_000_000)})
    } else { json!({"s":0,"us":0}) };
    if !dated { *paths.entry("rnd_asc_no_date_line".into()).or_default() += 1; }
    json!({"start":start,"hasref":hasref,"ref":refv,"mod":{"s":0,"us":0},"lines":lines})
}

fn rnd_logcat_file(r: &mut Rng, max_lines: u64, start: u64, paths: &mut BTreeMap<String, u64>) -> Value {
    let mut lines: Vec<Value> = Vec::new();
    let n = r.range(0, max_lines);
    let ntags = r.range(1, 10);
    let tags: Vec<&str> = (0..ntags).map(|_| *r.pick(&TAGS)).collect();
    let lv = ["V", "D", "I", "W", "E", "F"];
    let rest = |r: &mut Rng, tags: &Vec<&str>| {
        let tag = *r.pick(tags);
        let tagpad = if tag.len() < 8 && r.chance(2, 3) { 8 - tag.len() as u64 } else { 0 };
        (r.below(2), r.below(30000), r.below(30000), *r.pick(&lv), tagchars(tag), tagpad, rnd_msg(r))
    };
    let modt: i64;
    let mod_us = if r.chance(1, 2) { 0 } else { r.below(1_000_000) };
    if r.chance(1, 2) {
        // up-time format
        *paths.entry("rnd_logcat_monotonic".into()).or_default() += 1;
        modt = 1_600_000_000 + r.below(150_000_000) as i64;
        let mut t = r.below(50_000_000);
        let fd = if r.chance(1, 4) { 6 } else { 3 };
        for _ in 0..n {
            t += match r.below(3) { 0 => 0, 1 => r.below(5_000), _ => r.below(30_000_000) };
            let (pad, pid, tid, lvl, tag, tagpad, msg) = rest(r, &tags);
            let fr = if fd == 3 { (t % 1_000_000) / 1000 } else { t % 1_000_000 };
            lines.push(json!({"k":"mono","s":t / 1_000_000,"fr":fr,"fd":fd,"pad":pad,"pid":pid,"tid":tid,"lvl":lvl,"tag":tag,"tagpad":tagpad,"msg":msg}));
            if r.chance(1, 30) { lines.push(json!({"k":"other","v":r.below(4)})); }
        }
    } else {
        // date format: the file is written at or after its last record (same calendar day or later)
        let style = r.below(10); // 0,1: clock without RTC (1 Jan 00:00 of the file's year ...), 2: crosses new year, else plain
        let first: i64 = 1_600_000_000 + r.below(150_000_000) as i64;
        let (fy, _, _, _, _, _, _) = civil(first);
        let mut t_ms: i64 = match style {
            0 | 1 => days_from_civil(fy, 1, 1) * 86_400_000 + r.below(3_600_000) as i64 + if style == 1 { 11 * 3_600_000 + 50 * 60_000 } else { 0 },
            2 => days_from_civil(fy, 12, 31) * 86_400_000 + 86_400_000 - r.below(600_000) as i64,
            _ => first * 1000,
        };
        *paths.entry(match style { 0 | 1 => "rnd_logcat_date_no_rtc", 2 => "rnd_logcat_date_new_year", _ => "rnd_logcat_date_plain" }.into()).or_default() += 1;
        let t0 = t_ms;
        for _ in 0..n {
            t_ms += match r.below(4) { 0 => 0, 1 => r.below(20) as i64, 2 => r.below(5_000) as i64, _ => r.below(1_200_000) as i64 };
            if t_ms - t0 > 120_000_000 { t_ms = t0 + 120_000_000; } // keep the span below 32-bit 0.1 ms time stamps
            let (_, mo, d, hh, mi, ss, _) = civil(t_ms.div_euclid(1000));
            let (pad, pid, tid, lvl, tag, tagpad, msg) = rest(r, &tags);
            lines.push(json!({"k":"tt","mo":mo,"d":d,"hh":hh,"mi":mi,"ss":ss,"ms":t_ms.rem_euclid(1000),"pad":pad,"pid":pid,"tid":tid,"lvl":lvl,"tag":tag,
                "tagpad":tagpad,"msg":msg}));
            if r.chance(1, 30) { lines.push(json!({"k":"other","v":r.below(4)})); }
        }
        modt = t_ms.div_euclid(1000) + match r.below(3) { 0 => 0, 1 => r.below(3600) as i64, _ => r.below(20 * 86400) as i64 };
    }
    json!({"start":start,"hasref":false,"ref":{"s":0,"us":0},"mod":{"s":modt,"us":mod_us},"lines":lines})
}

fn rnd_genlog_file(r: &mut Rng, max_lines: u64, start: u64, paths: &mut BTreeMap<String, u64>) -> Value {
    let mut lines: Vec<Value> = Vec::new();
    let n = r.range(0, max_lines);
    let ntags = r.range(1, 10);
    let tags: Vec<&str> = (0..ntags).map(|_| *r.pick(&TAGS)).collect();
    let lv = ["INF", "WRN", "ERR", "VER", "FAT", "SEV", "DBG"];
    let mut t_ms: i64 = (1_600_000_000 + r.below(150_000_000) as i64) * 1000 + r.below(1000) as i64;
    if r.chance(1, 4) {
        let (y, _, _, _, _, _, _) = civil(t_ms / 1000);
        t_ms = days_from_civil(y, if r.chance(1, 2) { 12 } else { 2 }, 28) * 86_400_000 + 86_000_000; // near a month / year / leap-day change
    }
    let t0 = t_ms;
    if r.chance(1, 2) { lines.push(json!({"k":"other","v":0})); }
    for _ in 0..n {
        t_ms += match r.below(5) { 0 => 0, 1 => r.below(20) as i64, 2 => r.below(5_000) as i64, 3 => r.below(90_000_000) as i64, _ => -(r.below(2_000) as i64) };
        if t_ms - t0 > 120_000_000 { t_ms = t0 + 120_000_000; }
        let (y, mo, d, hh, mi, ss, _) = civil(t_ms.div_euclid(1000));
        lines.push(json!({"k":"rec","y":y,"mo":mo,"d":d,"hh":hh,"mi":mi,"ss":ss,"ms":t_ms.rem_euclid(1000),"lvl":*r.pick(&lv),"tag":tagchars(*r.pick(&tags)),"msg":rnd_msg(r)}));
        if r.chance(1, 15) { lines.push(json!({"k":"other","v":r.below(4)})); }
    }
    *paths.entry("rnd_genlog_file".into()).or_default() += 1;
    json!({"start":start,"hasref":false,"ref":{"s":0,"us":0},"mod":{"s":0,"us":0},"lines":lines})
}

fn main() {
    quiet_panics();
    let a = Args::from_env();
    let mut t = Trace::create(&a.str("--out", "trace.ndjson"));
    let mut case = a.num("--first-case", 0);
    let sample_every = a.num("--sample-every", 50);
    let mut paths: BTreeMap<String, u64> = BTreeMap::new();
    let (mut replayed, mut fast, mut slow, mut drift, mut not_ok, mut forced_slow) = (0u64, 0u64, 0u64, 0u64, 0u64, 0u64);
    let mut drift_samples: Vec<Value> = Vec::new();
    if let Some(f) = a.get("--scenarios") {
        for (n, scn) in read_ndjson(f).into_iter().enumerate() {
            let kind = st(&scn, "kind").to_string();
            let files = scn["files"].as_array().unwrap().clone();
            let via = (n % 3) as u64;
            let run = run_case(&kind, &files, Some(u(&scn, "nsmod") as u32), via, false, n % 5 != 0);
            replayed += 1;
            // observation in the shape of the prediction
            let obs: Vec<Value> = run.files.iter().map(|f| Value::Array(f.msgs.iter().map(|m| { let mut m = m.clone(); m.as_object_mut().unwrap().remove("ev"); m }).collect())).collect();
            let ends: Vec<Value> = run.files.iter().map(|f| json!(f.end)).collect();
            let equal = Value::Array(obs) == scn["pred"] && Value::Array(ends) == scn["ends"];
            let ok = b(&scn, "ok");
            let forced = b(&scn, "slow");
            if !ok { not_ok += 1; }
            if forced { forced_slow += 1; }
            if !equal && !forced {
                drift += 1;
                if drift_samples.len() < 5 { drift_samples.push(json!({"case": case, "files": files})); }
            }
            for fh in &files {
                for l in fh["lines"].as_array().unwrap() {
                    *paths.entry(format!("scn_{}_{}", kind, st(l, "k"))).or_default() += 1;
                }
            }
            if files.len() > 1 { *paths.entry(format!("scn_{}_two_files", kind)).or_default() += 1; }
            if equal && ok && !forced && (n as u64) % sample_every != 0 {
                fast += 1;
            } else {
                slow += 1;
                write_case(&mut t, case, &kind, "tlc", &files, &run, via, false);
            }
            case += 1;
        }
    }
    let n_random = a.num("--random", 0);
    let max_lines = a.num("--max-lines", 60);
    let mut rng = Rng::new(a.num("--seed", 1));
    for n in 0..n_random {
        let kind = ["asc", "logcat", "genlog"][(n % 3) as usize];
        let nfiles = if rng.chance(1, 4) { rng.range(2, 3) } else { 1 };
        let base_s = 1_600_000_000 + rng.below(100_000_000) as i64;
        let mut files = Vec::new();
        for _ in 0..nfiles {
            let start = match rng.below(4) { 0 => 0, 1 => rng.range(200, 255), _ => rng.below(1_000_000) };
            files.push(match kind {
                "asc" => rnd_asc_file(&mut rng, max_lines, base_s, start, &mut paths),
                "logcat" => rnd_logcat_file(&mut rng, max_lines, start, &mut paths),
                _ => rnd_genlog_file(&mut rng, max_lines, start, &mut paths),
            });
        }
        if nfiles > 1 { *paths.entry(format!("rnd_{}_several_files", kind)).or_default() += 1; }
        let via = rng.below(3);
        let crlf = rng.chance(1, 4);
        if crlf { *paths.entry("rnd_crlf".into()).or_default() += 1; }
        let run = run_case(kind, &files, None, via, crlf, !rng.chance(1, 5));
        write_case(&mut t, case, kind, "random", &files, &run, via, crlf);
        case += 1;
    }
    t.flush();
    let summary = json!({"cases": case, "lines": t.lines, "replayed": replayed, "fast_path": fast, "slow_path": slow, "drift": drift,
        "predicted_not_ok": not_ok, "forced_slow": forced_slow, "random": n_random, "paths": paths, "drift_samples": drift_samples});
    if let Some(p) = a.get("--summary") {
        std::fs::write(p, summary.to_string()).unwrap();
    }
    println!("{}", summary);
}
