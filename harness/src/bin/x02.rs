//! X02 driver: adlt::utils::progress::ProgressNonAsyncFuture as a concurrent object.
//!
//! The worker closure handed to the real `spawn` executes a *script* one step per gate token (mpsc channel), reports every
//! executed step on a second channel (`ack`) and its thread signals its end through a thread-local destructor (`fin`).
//! One observer thread (the "caller") releases steps, receives reports and calls poll / cur_progress / cancel / drop on the
//! real object, logging every event in its program order. Every ordering the contract relies on is a happens-before edge:
//! go -> step (gate channel), step -> ack (ack channel), thread end -> fin (fin channel). Nothing sleeps.
//!
//! The driver only records. Scenarios come from TLC (spec/Progress.tla, with the model's predicted observations: the
//! fast path is plain equality of the observed with the predicted event list) or from the seeded random generator
//! (always written as full traces). spec/ProgressTrace.tla decides every written trace.
use adlt::utils::progress::{ProgressNonAsyncFuture, ProgressPoll};
use std::cell::RefCell;
use std::io::BufRead;
use std::sync::atomic::{AtomicBool, Ordering};
use std::sync::mpsc::{channel, Receiver, RecvTimeoutError, Sender};
use std::sync::{Arc, Mutex};
use std::time::{Duration, Instant};
use vh::*;

const OP_TIMEOUT: Duration = Duration::from_secs(30); // only for "returns / terminates" obligations
const UNKNOWN_VAL: u64 = 99;

#[derive(Clone, Debug, PartialEq)]
enum Op {
    Upd(usize),
    Chk,
    Chkx,
    Wait,
    Ret(u64),
    Panic,
}
impl Op {
    fn name(&self) -> &'static str {
        match self {
            Op::Upd(_) => "upd",
            Op::Chk => "chk",
            Op::Chkx => "chkx",
            Op::Wait => "wait",
            Op::Ret(_) => "ret",
            Op::Panic => "panic",
        }
    }
    fn v(&self) -> u64 {
        match self {
            Op::Upd(k) => *k as u64,
            Op::Ret(r) => *r,
            _ => 0,
        }
    }
    fn json(&self) -> Value {
        json!({"op": self.name(), "v": self.v()})
    }
    fn from_json(v: &Value) -> Op {
        let n = v["v"].as_u64().unwrap();
        match v["op"].as_str().unwrap() {
            "upd" => Op::Upd(n as usize),
            "chk" => Op::Chk,
            "chkx" => Op::Chkx,
            "wait" => Op::Wait,
            "ret" => Op::Ret(n),
            "panic" => Op::Panic,
            o => panic!("unknown op {}", o),
        }
    }
}

struct Ack {
    op: &'static str,
    v: u64,
    seen: bool,
}

/// sends the thread-end signal when the worker THREAD's locals are destroyed (after the closure's result was stored)
struct FinGuard(Sender<()>);
impl Drop for FinGuard {
    fn drop(&mut self) {
        let _ = self.0.send(());
    }
}
thread_local! {
    static FIN: RefCell<Option<FinGuard>> = const { RefCell::new(None) };
}

/// what the observer needs to unstick a worker from outside (watchdog)
#[derive(Clone)]
struct Rescue {
    abort: Arc<AtomicBool>,
    gate: Sender<()>,
}
impl Rescue {
    fn fire(&self) {
        self.abort.store(true, Ordering::SeqCst);
        let _ = self.gate.send(());
    }
}

/// shared with the watchdog (main thread)
struct Live {
    events: Vec<Value>,
    op: &'static str,
    op_started: Option<Instant>,
    rescue: Option<Rescue>,
}

struct Runner {
    obj: Option<ProgressNonAsyncFuture<u64>>,
    gate_tx: Option<Sender<()>>,
    ack_rx: Receiver<Ack>,
    fin_rx: Receiver<()>,
    vals: Vec<(u32, u32)>, // value id k (1-based) -> vals[k-1]
    live: Arc<Mutex<Live>>,
    compact: Vec<[u64; 2]>,
    pending_poll: Option<(u64, u64)>, // (value id, count) of identical consecutive progress answers
    script_len: usize,
    linear: bool,
    released: usize,
    acked: usize,
    term: bool, // last step acknowledged
    fin_seen: bool,
    delivered: bool,
    dropped: bool,
    broken: bool, // a hang / panic event was logged: stop the case
    hung: bool,   // ... and it was a timeout (counts towards --max-hangs)
    dropper: Option<std::thread::JoinHandle<()>>,
}

fn scripted_worker(
    script: Vec<Op>,
    vals: Vec<(u32, u32)>,
    gate_rx: Receiver<()>,
    ack_tx: Sender<Ack>,
    fin_tx: Sender<()>,
    abort: Arc<AtomicBool>,
) -> impl FnOnce(&dyn Fn(u32, u32), Arc<AtomicBool>) -> u64 + Send + 'static {
    move |upd: &dyn Fn(u32, u32), flag: Arc<AtomicBool>| -> u64 {
        FIN.with(|f| *f.borrow_mut() = Some(FinGuard(fin_tx)));
        let last = script.len() - 1;
        let mut pc = 0usize;
        loop {
            // one step per token; when the observer is gone (or aborts) the worker ends at once: no thread is left behind
            if gate_rx.recv().is_err() || abort.load(Ordering::SeqCst) {
                return u64::MAX;
            }
            let op = script[pc].clone();
            let mut seen = false;
            match &op {
                Op::Upd(k) => {
                    let (c, m) = vals[*k - 1];
                    upd(c, m);
                    pc += 1;
                }
                Op::Chk => {
                    seen = flag.load(Ordering::Relaxed);
                    pc += 1;
                }
                Op::Chkx => {
                    seen = flag.load(Ordering::Relaxed);
                    pc = if seen { last } else { pc + 1 };
                }
                Op::Wait => {
                    seen = flag.load(Ordering::Relaxed);
                    if seen {
                        pc += 1;
                    }
                }
                Op::Ret(_) | Op::Panic => {}
            }
            let _ = ack_tx.send(Ack { op: op.name(), v: op.v(), seen });
            match op {
                Op::Ret(r) => return r,
                Op::Panic => panic!("scripted worker panic"),
                _ => {}
            }
        }
    }
}

impl Runner {
    fn start(script: &[Op], vals: &[(u32, u32)], live: Arc<Mutex<Live>>) -> Runner {
        let (gate_tx, gate_rx) = channel::<()>();
        let (ack_tx, ack_rx) = channel::<Ack>();
        let (fin_tx, fin_rx) = channel::<()>();
        let abort = Arc::new(AtomicBool::new(false));
        live.lock().unwrap().rescue = Some(Rescue { abort: abort.clone(), gate: gate_tx.clone() });
        let w = scripted_worker(script.to_vec(), vals.to_vec(), gate_rx, ack_tx, fin_tx, abort);
        // ---- the real object ----
        let obj = ProgressNonAsyncFuture::spawn(w);
        let linear = script.iter().all(|o| !matches!(o, Op::Chkx | Op::Wait));
        Runner {
            obj: Some(obj),
            gate_tx: Some(gate_tx),
            ack_rx,
            fin_rx,
            vals: vals.to_vec(),
            live,
            compact: Vec::new(),
            pending_poll: None,
            script_len: script.len(),
            linear,
            released: 0,
            acked: 0,
            term: false,
            fin_seen: false,
            delivered: false,
            dropped: false,
            broken: false,
            hung: false,
            dropper: None,
            }
    }

    fn begin(&self, op: &'static str) {
        let mut l = self.live.lock().unwrap();
        l.op = op;
        l.op_started = Some(Instant::now());
    }
    fn done(&self) {
        self.live.lock().unwrap().op_started = None;
    }
    fn flush_poll(&mut self) {
        if let Some((v, n)) = self.pending_poll.take() {
            self.live.lock().unwrap().events.push(json!({"ev":"poll","res":"progress","v":v,"n":n}));
        }
    }
    fn log(&mut self, e: Value, c: [u64; 2]) {
        self.flush_poll();
        self.live.lock().unwrap().events.push(e);
        self.compact.push(c);
    }
    fn val_id(&self, p: (u32, u32)) -> u64 {
        if p == (0, 0) {
            return 0;
        }
        match self.vals.iter().position(|x| *x == p) {
            Some(i) => i as u64 + 1,
            None => UNKNOWN_VAL,
        }
    }

    fn go(&mut self) {
        let _ = self.gate_tx.as_ref().unwrap().send(());
        self.released += 1;
        self.log(json!({"ev":"go"}), [1, 0]);
    }
    fn log_ack(&mut self, a: Ack) {
        self.acked += 1;
        if a.op == "ret" || a.op == "panic" {
            self.term = true;
        }
        self.log(json!({"ev":"ack","op":a.op,"v":a.v,"seen":a.seen}), [2, a.seen as u64]);
    }
    fn ack_wait(&mut self) {
        match self.ack_rx.recv_timeout(OP_TIMEOUT) {
            Ok(a) => self.log_ack(a),
            Err(_) => {
                self.broken = true;
                self.hung = true;
                self.log(json!({"ev":"hang","op":"worker_step"}), [99, 0]);
            }
        }
    }
    /// non-blocking: log the reports (and the thread-end signal) that have arrived
    fn drain(&mut self) {
        while let Ok(a) = self.ack_rx.try_recv() {
            self.log_ack(a);
        }
        if !self.fin_seen && self.fin_rx.try_recv().is_ok() {
            while let Ok(a) = self.ack_rx.try_recv() {
                self.log_ack(a); // reported before the thread ended
            }
            self.fin_seen = true;
            self.log(json!({"ev":"fin"}), [3, 0]);
        }
    }
    fn fin_wait(&mut self) {
        if self.fin_seen {
            return;
        }
        match self.fin_rx.recv_timeout(OP_TIMEOUT) {
            Ok(()) => {
                while let Ok(a) = self.ack_rx.try_recv() {
                    self.log_ack(a);
                }
                self.fin_seen = true;
                self.log(json!({"ev":"fin"}), [3, 0]);
            }
            Err(RecvTimeoutError::Timeout) | Err(RecvTimeoutError::Disconnected) => {
                self.broken = true;
                self.hung = true;
                self.log(json!({"ev":"nofin"}), [99, 0]);
            }
        }
    }

    /// one real poll(); compress = fold identical consecutive progress answers into one logged event
    fn poll(&mut self, compress: bool) -> bool {
        self.begin("poll");
        let obj = self.obj.as_mut().unwrap();
        let r = catch(std::panic::AssertUnwindSafe(|| obj.poll()));
        self.done();
        match r {
            Ok(ProgressPoll::Progress(p)) => {
                let v = self.val_id(p);
                if compress && v != UNKNOWN_VAL {
                    match &mut self.pending_poll {
                        Some((pv, n)) if *pv == v => *n += 1,
                        _ => {
                            self.flush_poll();
                            self.pending_poll = Some((v, 1));
                        }
                    }
                    self.compact.push([4, v]);
                } else if v == UNKNOWN_VAL {
                    self.log(json!({"ev":"poll","res":"progress","v":v,"n":1,"raw":format!("{}/{}", p.0, p.1)}), [4, v]);
                } else {
                    self.log(json!({"ev":"poll","res":"progress","v":v,"n":1}), [4, v]);
                }
                false
            }
            Ok(ProgressPoll::Done(r)) => {
                self.delivered = true;
                let rv = if r < 0x7fff_ffff { r } else { 0x7fff_ffff };
                self.log(json!({"ev":"poll","res":"done","v":rv,"n":1}), [5, rv]);
                true
            }
            Ok(ProgressPoll::Err(())) => {
                self.delivered = true;
                self.log(json!({"ev":"poll","res":"err","v":0,"n":1}), [6, 0]);
                true
            }
            Err(msg) => {
                self.broken = true;
                self.log(json!({"ev":"panic","op":"poll","msg":msg}), [99, 0]);
                true
            }
        }
    }
    /// the unit tests' loop: poll until the result arrives (only called when the last step was released)
    fn await_result(&mut self) {
        let t0 = Instant::now();
        loop {
            if self.poll(true) {
                return;
            }
            if t0.elapsed() > OP_TIMEOUT {
                self.broken = true;
                self.hung = true;
                self.log(json!({"ev":"hang","op":"await_result"}), [99, 0]);
                return;
            }
            std::thread::yield_now();
        }
    }
    /// keep polling while the released steps are being executed (the owner's reads race with the worker's reports);
    /// ends when every released step was acknowledged, the result arrived, or after a bounded number of polls
    fn poll_storm(&mut self) {
        let t0 = Instant::now();
        let mut n = 0u64;
        while self.acked < self.released && !self.broken && !self.delivered {
            if self.poll(true) {
                break;
            }
            n += 1;
            if n % 32 == 0 {
                self.drain();
                if t0.elapsed() > Duration::from_secs(2) {
                    break;
                }
            }
        }
    }
    fn cur(&mut self) {
        self.begin("cur_progress");
        let obj = self.obj.as_ref().unwrap();
        let r = catch(std::panic::AssertUnwindSafe(|| obj.cur_progress()));
        self.done();
        match r {
            Ok(p) => {
                let v = self.val_id(p);
                if v == UNKNOWN_VAL {
                    self.log(json!({"ev":"cur","v":v,"raw":format!("{}/{}", p.0, p.1)}), [7, v]);
                } else {
                    self.log(json!({"ev":"cur","v":v}), [7, v]);
                }
            }
            Err(msg) => {
                self.broken = true;
                self.log(json!({"ev":"panic","op":"cur_progress","msg":msg}), [99, 0]);
            }
        }
    }
    fn cancel(&mut self) {
        self.begin("cancel");
        let obj = self.obj.as_ref().unwrap();
        let r = catch(std::panic::AssertUnwindSafe(|| obj.cancel()));
        self.done();
        match r {
            Ok(()) => self.log(json!({"ev":"cancel"}), [8, 0]),
            Err(msg) => {
                self.broken = true;
                self.log(json!({"ev":"panic","op":"cancel","msg":msg}), [99, 0]);
            }
        }
    }
    /// the object is dropped on a helper thread: whether drop waits for the worker is not part of the contract
    fn drop_obj(&mut self) {
        let obj = self.obj.take().unwrap();
        self.dropped = true;
        self.dropper = Some(std::thread::spawn(move || {
            let _ = catch(std::panic::AssertUnwindSafe(move || drop(obj)));
        }));
        self.log(json!({"ev":"drop"}), [9, 0]);
    }
    fn finish(mut self) -> (Vec<[u64; 2]>, bool) {
        self.log(json!({"ev":"end"}), [0, 0]);
        self.compact.pop();
        // close the gate first (a still running worker ends at once), then let go of the object
        self.gate_tx = None;
        {
            let mut l = self.live.lock().unwrap();
            if let Some(r) = l.rescue.take() {
                r.fire();
            }
        }
        self.obj = None;
        if let Some(h) = self.dropper.take() {
            let _ = h.join();
        }
        (self.compact, self.hung)
    }
    fn can_release(&self) -> bool {
        !self.term && (!self.linear || self.released < self.script_len)
    }
    fn last_released(&self) -> bool {
        self.term || (self.linear && self.released >= self.script_len)
    }
}

// ------------------------------------------------------------------------------------------- value tables
fn table(enc: u64) -> Vec<(u32, u32)> {
    match enc % 3 {
        0 => vec![(0, 3), (1, 3), (3, 3), (2, 1)],
        1 => vec![(0, u32::MAX), (0x8000_0001, u32::MAX), (u32::MAX, u32::MAX), (u32::MAX, 0)],
        _ => vec![(0, 1), (1, 0), (0x1234_5678, 0x9abc_def0), (0x9abc_def0, 0x1234_5678)],
    }
}
fn random_table(rng: &mut Rng, n: usize) -> Vec<(u32, u32)> {
    let mut t: Vec<(u32, u32)> = Vec::new();
    let pick = |rng: &mut Rng| -> u32 {
        match rng.below(6) {
            0 => 0,
            1 => u32::MAX,
            2 => rng.below(4) as u32,
            3 => 1u32 << rng.below(32),
            _ => rng.next_u64() as u32,
        }
    };
    while t.len() < n {
        let p = match rng.below(4) {
            // a monotone family: position k of a fixed total
            0 => {
                let total = pick(rng).max(1);
                (rng.below(total as u64 + 1) as u32, total)
            }
            _ => (pick(rng), pick(rng)),
        };
        if p != (0, 0) && !t.contains(&p) {
            t.push(p);
        }
    }
    t
}
fn vals_json(v: &[(u32, u32)]) -> Value {
    Value::Array(v.iter().map(|(c, m)| json!(format!("{}/{}", c, m))).collect())
}

// ------------------------------------------------------------------------------------------- cases
enum Case {
    /// events predicted by TLC (compact codes) for a script: replay them in this order
    Scenario { script: Vec<Op>, pred: Vec<[u64; 2]>, vals: Vec<(u32, u32)> },
    /// seeded random case: family 0 = any script, every step acknowledged before the next event;
    /// 1 = linear script, bursts of released steps race with the owner's calls; 2 = long burst against a polling owner
    Random { family: u64, seed: u64 },
}

struct CaseOut {
    hdr: Value,
    compact: Vec<[u64; 2]>,
    nontrivial: bool,
    hung: bool,
}

fn run_scenario(script: &[Op], pred: &[[u64; 2]], vals: &[(u32, u32)], live: Arc<Mutex<Live>>) -> CaseOut {
    let mut r = Runner::start(script, vals, live);
    for (i, p) in pred.iter().enumerate() {
        match p[0] {
            1 => r.go(),
            2 => r.ack_wait(),
            3 => r.fin_wait(),
            4..=6 => {
                r.poll(false);
            }
            7 => r.cur(),
            8 => r.cancel(),
            9 => r.drop_obj(),
            _ => unreachable!(),
        }
        // stop at the first difference from the model's prediction: the rest of the path is relative to the predicted state
        if r.broken || r.compact.get(i) != Some(p) {
            break;
        }
    }
    let (compact, hung) = r.finish();
    CaseOut { hdr: json!({"mode":"tlc"}), compact, nontrivial: true, hung }
}

fn random_script(rng: &mut Rng, family: u64, nvals: usize) -> Vec<Op> {
    let n = match family {
        0 => rng.range(0, 14),
        1 => rng.range(1, 40),
        _ => rng.range(50, 400),
    } as usize;
    let mut s = Vec::new();
    let mut next_mono = 1usize;
    let mono = rng.chance(1, 2);
    for _ in 0..n {
        let k = rng.below(10);
        let op = if family == 0 {
            match k {
                0..=4 => Op::Upd(0),
                5 | 6 => Op::Chk,
                7 => Op::Chkx,
                _ => Op::Wait,
            }
        } else if k < 8 || family == 2 && k < 9 {
            Op::Upd(0)
        } else {
            Op::Chk
        };
        s.push(match op {
            Op::Upd(_) => {
                if mono {
                    let v = next_mono;
                    next_mono = (next_mono % nvals) + 1;
                    Op::Upd(v)
                } else {
                    Op::Upd(rng.range(1, nvals as u64) as usize)
                }
            }
            o => o,
        });
    }
    s.push(if rng.chance(1, 6) { Op::Panic } else { Op::Ret(rng.range(1, 0x7fff_0000)) });
    s
}

fn run_random(family: u64, seed: u64, live: Arc<Mutex<Live>>) -> CaseOut {
    let mut rng = Rng::new(seed);
    let nvals = rng.range(1, 12) as usize;
    let vals = random_table(&mut rng, nvals);
    let script = random_script(&mut rng, family, nvals);
    {
        live.lock().unwrap().events.push(json!({"script": Value::Array(script.iter().map(|o| o.json()).collect()), "vals": vals_json(&vals)}));
    }
    let mut r = Runner::start(&script, &vals, live);
    let max_actions = match family {
        0 => rng.range(4, 60),
        1 => rng.range(10, 150),
        _ => rng.range(20, 400),
    };
    let mut ended_by_await = false;
    let droppy = rng.chance(1, 4); // only some cases may end by dropping the object while the worker runs
    for _ in 0..max_actions {
        if r.broken {
            break;
        }
        if r.dropped {
            // the owner is gone: only the worker goes on
            if r.can_release() {
                r.go();
                r.ack_wait();
            } else {
                break;
            }
            continue;
        }
        let a = rng.below(100);
        match family {
            0 => match a {
                0..=39 if r.can_release() => {
                    r.go();
                    r.ack_wait();
                    if r.term && rng.chance(1, 2) {
                        r.fin_wait();
                    }
                }
                40..=64 => {
                    r.poll(false);
                }
                65..=79 => r.cur(),
                80..=89 => r.cancel(),
                90..=92 if droppy && rng.chance(1, 4) => r.drop_obj(),
                93..=99 if r.last_released() && !r.delivered => {
                    r.await_result();
                    ended_by_await = true;
                }
                _ => {
                    r.poll(false);
                }
            },
            _ => {
                let big = family == 2;
                match a {
                    0..=24 if r.can_release() => {
                        let room = r.script_len - r.released;
                        let n = (rng.range(1, if big { 200 } else { 8 }) as usize).min(room);
                        for _ in 0..n {
                            r.go();
                        }
                    }
                    25..=34 => r.drain(),
                    35..=39 if r.acked < r.released => r.poll_storm(),
                    40..=64 if big && r.acked < r.released => r.poll_storm(),
                    40..=74 => {
                        let n = if big { rng.range(1, 300) } else { rng.range(1, 6) };
                        for _ in 0..n {
                            if r.poll(true) || r.broken {
                                break;
                            }
                        }
                    }
                    75..=84 => r.cur(),
                    85..=89 => r.cancel(),
                    90 if droppy && rng.chance(1, 3) => r.drop_obj(),
                    91..=99 if r.last_released() && !r.delivered => {
                        if rng.chance(1, 2) {
                            r.fin_wait();
                            r.poll(false);
                        } else {
                            r.await_result();
                        }
                        ended_by_await = true;
                    }
                    _ => r.drain(),
                }
            }
        }
    }
    // epilogue: let the worker finish, fetch the result, look once more (final value, no second result)
    if !r.broken && !r.dropped {
        if r.linear {
            while r.can_release() {
                r.go();
            }
        } else {
            let mut spins = 0;
            while r.can_release() && !r.broken {
                r.go();
                r.ack_wait();
                spins += 1;
                if spins > r.script_len + 3 {
                    r.cancel(); // a `wait` step: the scripted worker only goes on after cancel()
                }
                if spins > 2 * r.script_len + 12 {
                    break; // the worker never saw the request (the recorded reports already show it): give up
                }
            }
        }
        if !r.last_released() {
            r.broken = true;
        }
        if !r.broken && !r.delivered {
            r.await_result();
            ended_by_await = true;
        }
        if !r.broken {
            r.drain();
            if !r.fin_seen {
                r.fin_wait();
            }
            r.cur();
            r.poll(false);
            r.cur();
        }
    }
    let _ = ended_by_await;
    let (compact, hung) = r.finish();
    let nontrivial = compact.iter().filter(|c| c[0] == 4 || c[0] == 5 || c[0] == 7).count() >= 2;
    CaseOut { hdr: json!({"mode": format!("random{}", family), "seed": seed}), compact, nontrivial, hung }
}

// ------------------------------------------------------------------------------------------- caller thread + watchdog
struct CallerThread {
    tx: Sender<(Case, Arc<Mutex<Live>>)>,
    rx: Receiver<CaseOut>,
}
fn spawn_caller() -> CallerThread {
    let (tx, crx) = channel::<(Case, Arc<Mutex<Live>>)>();
    let (ctx, rx) = channel::<CaseOut>();
    std::thread::spawn(move || {
        while let Ok((case, live)) = crx.recv() {
            let out = match case {
                Case::Scenario { script, pred, vals } => run_scenario(&script, &pred, &vals, live),
                Case::Random { family, seed } => run_random(family, seed, live),
            };
            if ctx.send(out).is_err() {
                return;
            }
        }
    });
    CallerThread { tx, rx }
}

/// calibration of the thread-end signal on plain std threads (independent of the code under test): after the signal of the
/// thread-local destructor was received, JoinHandle::is_finished() must be true
fn calibrate(n: usize) -> usize {
    let mut failures = 0;
    for _ in 0..n {
        let (fin_tx, fin_rx) = channel::<()>();
        let h = std::thread::spawn(move || {
            FIN.with(|f| *f.borrow_mut() = Some(FinGuard(fin_tx)));
            7u64
        });
        if fin_rx.recv_timeout(OP_TIMEOUT).is_err() || !h.is_finished() {
            failures += 1;
        }
        let _ = h.join();
    }
    failures
}

/// returns (events, out); out = None if a call into the object did not return
fn run_case(caller: &mut CallerThread, case: Case) -> (Vec<Value>, Option<CaseOut>) {
    let live = Arc::new(Mutex::new(Live { events: Vec::new(), op: "", op_started: None, rescue: None }));
    caller.tx.send((case, live.clone())).unwrap();
    loop {
        match caller.rx.recv_timeout(Duration::from_millis(500)) {
            Ok(out) => {
                let evs = std::mem::take(&mut live.lock().unwrap().events);
                return (evs, Some(out));
            }
            Err(RecvTimeoutError::Timeout) => {
                let mut l = live.lock().unwrap();
                if let Some(t0) = l.op_started {
                    if t0.elapsed() > OP_TIMEOUT {
                        // a call into the object does not return: record it, unstick the worker, abandon this caller thread
                        let mut evs = std::mem::take(&mut l.events);
                        evs.push(json!({"ev":"hang","op":l.op}));
                        evs.push(json!({"ev":"end"}));
                        if let Some(r) = l.rescue.take() {
                            r.fire();
                        }
                        drop(l);
                        *caller = spawn_caller();
                        return (evs, None);
                    }
                }
            }
            Err(RecvTimeoutError::Disconnected) => panic!("caller thread died (driver bug)"),
        }
    }
}

enum Job {
    Scenario(String),
    Random { family: u64, seed: u64 },
}
#[derive(Default)]
struct Stats {
    replayed: u64,
    fast: u64,
    slow: u64,
    drift: u64,
    not_ok: u64,
    random: u64,
    nontrivial: u64,
    kinds: [u64; 10],
}
impl Stats {
    fn count(&mut self, compact: &[[u64; 2]]) {
        for c in compact {
            if (c[0] as usize) < self.kinds.len() {
                self.kinds[c[0] as usize] += 1;
            }
        }
    }
}
/// a written (slow path / random) case: (case number, lines)
type Written = (u64, Vec<Value>);

fn case_lines(case_no: u64, mut hdr: Value, script: Option<&Vec<Op>>, vals: Option<&Vec<(u32, u32)>>, mut evs: Vec<Value>) -> Vec<Value> {
    if let (Some(s), Some(v)) = (script, vals) {
        hdr["script"] = Value::Array(s.iter().map(|o| o.json()).collect());
        hdr["vals"] = vals_json(v);
    } else {
        // random cases publish script and table as their first live entry
        let first = evs.remove(0);
        hdr["script"] = first["script"].clone();
        hdr["vals"] = first["vals"].clone();
    }
    let mut out = vec![json!({"ev":"reset","case":case_no,"hdr":hdr})];
    out.extend(evs);
    out
}

/// one lane = one observer (caller thread + watchdog) working through its share of the cases; cases are independent
fn lane(jobs: Vec<(u64, Job)>, sample_every: u64, sample_off: u64, hangs: &std::sync::atomic::AtomicU64, max_hangs: u64) -> (Stats, Vec<Written>) {
    let mut st = Stats::default();
    let mut written = Vec::new();
    let mut caller = spawn_caller();
    for (case_no, job) in jobs {
        if hangs.load(Ordering::SeqCst) >= max_hangs {
            break;
        }
        match job {
            Job::Scenario(line) => {
                let scn: Value = serde_json::from_str(&line).expect("json");
                let script: Vec<Op> = scn["script"].as_array().unwrap().iter().map(Op::from_json).collect();
                let pred: Vec<[u64; 2]> = scn["ev"].as_array().unwrap().iter().map(|e| [e[0].as_u64().unwrap(), e[1].as_u64().unwrap()]).collect();
                let ok = scn["ok"].as_bool().unwrap();
                let vals = table(case_no);
                let (evs, out) = run_case(&mut caller, Case::Scenario { script: script.clone(), pred: pred.clone(), vals: vals.clone() });
                st.replayed += 1;
                let same = out.as_ref().map(|o| o.compact == pred).unwrap_or(false);
                match &out {
                    Some(o) => {
                        st.count(&o.compact);
                        if o.hung {
                            hangs.fetch_add(1, Ordering::SeqCst);
                        }
                    }
                    None => {
                        hangs.fetch_add(1, Ordering::SeqCst);
                    }
                }
                if !same {
                    st.drift += 1;
                }
                if !ok {
                    st.not_ok += 1;
                }
                if same && ok && case_no % sample_every != sample_off {
                    st.fast += 1;
                } else {
                    st.slow += 1;
                    let mut hdr = out.map(|o| o.hdr).unwrap_or(json!({"mode":"tlc"}));
                    hdr["predicted"] = json!(pred.iter().map(|p| vec![p[0], p[1]]).collect::<Vec<_>>());
                    hdr["drift"] = json!(!same);
                    written.push((case_no, case_lines(case_no, hdr, Some(&script), Some(&vals), evs)));
                }
            }
            Job::Random { family, seed } => {
                let (evs, out) = run_case(&mut caller, Case::Random { family, seed });
                st.random += 1;
                let hdr = match out {
                    Some(o) => {
                        if o.nontrivial {
                            st.nontrivial += 1;
                        }
                        st.count(&o.compact);
                        if o.hung {
                            hangs.fetch_add(1, Ordering::SeqCst);
                        }
                        o.hdr
                    }
                    None => {
                        hangs.fetch_add(1, Ordering::SeqCst);
                        json!({"mode": format!("random{}", family), "seed": seed})
                    }
                };
                written.push((case_no, case_lines(case_no, hdr, None, None, evs)));
            }
        }
    }
    (st, written)
}

fn main() {
    quiet_panics();
    let a = Args::from_env();
    let mut t = Trace::create(&a.str("--out", "trace.ndjson"));
    let seed = a.num("--seed", 1);
    let sample_every = a.num("--sample-every", 200).max(1);
    let max_hangs = a.num("--max-hangs", 3);
    let lanes = a.num("--lanes", 4).max(1) as usize;
    let calib_failures = calibrate(a.num("--calibrate", 2000) as usize);
    let sample_off = seed % sample_every;
    let hangs = std::sync::atomic::AtomicU64::new(0);
    let mut total = Stats::default();
    let mut case_no: u64 = 0;

    let mut run_batch = |t: &mut Trace, jobs: Vec<(u64, Job)>| {
        let mut shares: Vec<Vec<(u64, Job)>> = (0..lanes).map(|_| Vec::new()).collect();
        for (i, j) in jobs.into_iter().enumerate() {
            shares[i % lanes].push(j);
        }
        let hangs = &hangs;
        let results: Vec<(Stats, Vec<Written>)> = std::thread::scope(|s| {
            let hs: Vec<_> = shares.into_iter().map(|sh| s.spawn(move || lane(sh, sample_every, sample_off, hangs, max_hangs))).collect();
            hs.into_iter().map(|h| h.join().expect("lane")).collect()
        });
        let mut all: Vec<Written> = Vec::new();
        for (st, w) in results {
            total.replayed += st.replayed;
            total.fast += st.fast;
            total.slow += st.slow;
            total.drift += st.drift;
            total.not_ok += st.not_ok;
            total.random += st.random;
            total.nontrivial += st.nontrivial;
            for k in 0..10 {
                total.kinds[k] += st.kinds[k];
            }
            all.extend(w);
        }
        all.sort_by_key(|w| w.0);
        for (_, lines) in all {
            for l in lines {
                t.ev(l);
            }
        }
    };

    if let Some(f) = a.get("--scenarios") {
        let rd = std::io::BufReader::new(std::fs::File::open(f).expect("open scenarios"));
        let mut batch = Vec::new();
        for line in rd.lines() {
            let line = line.unwrap();
            if line.trim().is_empty() {
                continue;
            }
            batch.push((case_no, Job::Scenario(line)));
            case_no += 1;
            if batch.len() >= 20000 {
                run_batch(&mut t, std::mem::take(&mut batch));
            }
        }
        run_batch(&mut t, batch);
    }
    let n_random = a.num("--random", 0);
    let mut rng = Rng::new(seed);
    let mut batch = Vec::new();
    for i in 0..n_random {
        let family = match i % 10 {
            0..=4 => 0,
            5..=8 => 1,
            _ => 2,
        };
        batch.push((case_no, Job::Random { family, seed: rng.next_u64() >> 1 }));
        case_no += 1;
    }
    run_batch(&mut t, batch);
    t.flush();
    let h = hangs.load(Ordering::SeqCst);
    let kinds = total.kinds;
    println!(
        "{}",
        json!({"cases": case_no, "lines": t.lines, "replayed": total.replayed, "fast_path": total.fast, "slow_path": total.slow, "drift": total.drift,
               "model_not_ok": total.not_ok, "random": total.random, "random_nontrivial": total.nontrivial, "hangs": h, "aborted": h >= max_hangs,
               "lanes": lanes, "calibration_runs": a.num("--calibrate", 2000), "calibration_failures": calib_failures,
               "events": {"go": kinds[1], "ack": kinds[2], "fin": kinds[3], "poll_progress": kinds[4], "poll_done": kinds[5],
                          "poll_err": kinds[6], "cur": kinds[7], "cancel": kinds[8], "drop": kinds[9]}})
    );
    // worker / caller threads that are still blocked (after a hang) must not keep the process alive
    std::process::exit(0);
}
