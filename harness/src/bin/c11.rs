//! C11 driver: renders abstract filters (spec/Filter.tla) through every front-end that can express them, asks the REAL
//! Filter::matches about concrete messages and records `decide` / `roundtrip` events.
//!
//! Scenarios come from TLC (spec/mc/MCFilter.tla, one line per filter with the messages and the decision TLC predicts
//! for each) or from the seeded random generator (no prediction; every event goes to TLC). The only comparison done here
//! is data equality between an observation and TLC's prediction (fast path of DESIGN.md section 2): events that differ
//! from the prediction, a random sample of the others and all random cases are written to the trace, and only TLC
//! (spec/FilterTrace.tla) decides about them.
#[path = "c11/abs.rs"]
mod abs;
use abs::*;
use adlt::filter::Filter;
use std::collections::HashSet;
use std::io::Write;
use vh::*;

struct Out {
    t: Trace,
    case: u64,
    cases_written: u64,
    /// thorough tier only: at most this many drifting events per case and signature (event kind, observed values,
    /// prediction) are written to the trace (0 = all); the others are only counted
    drift_cap: u64,
    /// at most this many cases that differ from the prediction (or fail to load) are written per family (front-end);
    /// the verdict only needs some of them - a tree that deviates everywhere must not flood the trace validation
    family_cap: u64,
    family: std::collections::HashMap<String, u64>,
    stats: std::collections::BTreeMap<String, u64>,
}
impl Out {
    /// may another deviating case of this family be written? (TLC-predicted cases only; random cases are bounded by their number)
    fn admit(&mut self, family: &str) -> bool {
        let n = self.family.entry(family.to_string()).or_insert(0);
        *n += 1;
        if self.family_cap == 0 || *n <= self.family_cap {
            true
        } else {
            *self.stats.entry("deviating_cases_not_written_family_cap".to_string()).or_insert(0) += 1;
            false
        }
    }
    fn bump(&mut self, k: &str, n: u64) {
        *self.stats.entry(k.to_string()).or_insert(0) += n;
    }
}

struct Obs {
    result: Result<bool, String>,
    rt: Option<Result<(bool, bool), String>>,
}

fn observe(filter: &Filter, again: Option<&Filter>, m: &AMsg, idx: u32) -> Obs {
    let msg = mk_dlt_msg(idx, m);
    let result = catch(std::panic::AssertUnwindSafe(|| filter.matches(&msg)));
    let rt = again.map(|g| catch(std::panic::AssertUnwindSafe(|| (filter.matches(&msg), g.matches(&msg)))));
    Obs { result, rt }
}

/// one (front-end, filter) case on the library; `pred[i]` = TLC's prediction for ms[i] (None for random cases)
fn run_lib_case(o: &mut Out, fe: &str, f: &AFilter, ms: &[AMsg], pred: Option<&[bool]>, sampled: bool, src: &str) {
    let case = o.case;
    o.case += 1;
    o.bump(&format!("cases_{}", fe), 1);
    let (built, text) = catch(std::panic::AssertUnwindSafe(|| build(fe, f))).unwrap_or_else(|p| (Err(format!("panic: {}", p)), String::new()));
    let hdr = json!({"fe": fe, "f": f, "src": src, "text": text});
    let filter = match built {
        Ok(x) => x,
        Err(e) => {
            o.bump("loaderr", 1);
            if pred.is_none() || o.admit(&format!("loaderr_{}", fe)) {
                o.t.ev(json!({"ev":"reset","case":case,"hdr":hdr}));
                o.t.ev(json!({"ev":"loaderr","msg":e}));
                o.cases_written += 1;
            }
            return;
        }
    };
    // a filter serialised to JSON and loaded again
    let js = catch(std::panic::AssertUnwindSafe(|| filter.to_json()));
    let again: Result<Filter, String> = match &js {
        Ok(s) => catch(std::panic::AssertUnwindSafe(|| Filter::from_json(s).map_err(|e| format!("from_json(to_json) failed for {}: {:?}", s, e)))).unwrap_or_else(|p| Err(format!("panic: {}", p))),
        Err(p) => Err(format!("panic in to_json: {}", p)),
    };
    let mut evs: Vec<Value> = Vec::new();
    let mut n_drift = 0u64;
    let mut n_fast = 0u64;
    let mut n_capped = 0u64;
    let mut sig: std::collections::HashMap<(u8, bool, bool, bool), u64> = Default::default();
    let cap = o.drift_cap;
    let mut under_cap = |k: (u8, bool, bool, bool)| -> bool {
        let n = sig.entry(k).or_insert(0);
        *n += 1;
        cap == 0 || *n <= cap
    };
    for (i, m) in ms.iter().enumerate() {
        let ob = observe(&filter, again.as_ref().ok(), m, i as u32);
        let p = pred.map(|p| p[i]);
        let (dec_drift, dec_ev) = match &ob.result {
            Ok(r) => (p.map(|p| p != *r).unwrap_or(true), json!({"ev":"decide","m":m,"result":r,"pred":p.map(|b| b as i32).unwrap_or(-1)})),
            Err(msg) => (true, json!({"ev":"panic","msg":msg})),
        };
        if sampled || (dec_drift && (p.is_none() || ob.result.is_err() || under_cap((0, *ob.result.as_ref().unwrap(), false, p.unwrap())))) {
            evs.push(dec_ev);
        } else if dec_drift {
            n_capped += 1;
        }
        if dec_drift && p.is_some() {
            n_drift += 1;
        } else if p.is_some() {
            n_fast += 1;
        }
        match &ob.rt {
            Some(Ok((before, after))) => {
                let d = p.map(|p| p != *before || p != *after).unwrap_or(true);
                if sampled || (d && (p.is_none() || under_cap((1, *before, *after, p.unwrap())))) {
                    evs.push(json!({"ev":"roundtrip","m":m,"before":before,"after":after,"pred":p.map(|b| b as i32).unwrap_or(-1)}));
                } else if d {
                    n_capped += 1;
                }
                if p.is_some() {
                    if d { n_drift += 1 } else { n_fast += 1 }
                }
            }
            Some(Err(msg)) => evs.push(json!({"ev":"panic","msg":msg})),
            None => {}
        }
    }
    o.bump("events_observed", 2 * ms.len() as u64);
    o.bump("drift", n_drift);
    o.bump("fast_path", n_fast);
    o.bump("drift_not_written_cap", n_capped);
    let rt_failed = again.as_ref().err().cloned();
    let deviating = !evs.is_empty() || rt_failed.is_some();
    if sampled || (deviating && (pred.is_none() || o.admit(&format!("lib_{}", fe)))) {
        let mut h = hdr;
        h["json_again"] = json!(js.clone().unwrap_or_default());
        o.t.ev(json!({"ev":"reset","case":case,"hdr":h}));
        o.bump("slow_path", evs.len() as u64);
        for e in evs {
            o.t.ev(e);
        }
        match rt_failed {
            Some(e) => o.t.ev(json!({"ev":"loaderr","msg":e})),
            None => o.t.ev(json!({"ev":"end"})),
        }
        o.cases_written += 1;
    }
}

/// ECU:APID:CTID through the `adlt convert` binary: the messages are written to a DLT file, `--eac=<expr> -s` prints the
/// selected ones (one positive filter: a message is selected iff the filter matches it)
struct EacTask {
    /// "eac": --eac=<expr>; "conv": -f <dlt-convert list file>; "dlf": -f <DLF file>
    mode: &'static str,
    f: AFilter,
    ms: Vec<AMsg>,
    pred: Option<Vec<bool>>,
    sampled: bool,
    short: bool,
    src: &'static str,
}

fn eac_exec(adlt: &str, tmp: &str, id: usize, t: &EacTask) -> Result<HashSet<usize>, String> {
    let path = format!("{}/eac_{}.dlt", tmp, id);
    let fpath = format!("{}/eac_{}.flt", tmp, id);
    let farg: Vec<String> = match t.mode {
        "eac" => vec![format!("--eac={}", render_eac(&t.f, t.short))],
        "conv" => {
            std::fs::write(&fpath, render_conv(&[&t.f])).expect("write filter file");
            vec!["-f".to_string(), fpath.clone()]
        }
        _ => {
            std::fs::write(&fpath, render_dlf_file("", &[&t.f], if t.short { DlfStyle::Minimal } else { DlfStyle::Full })).expect("write filter file");
            vec!["-f".to_string(), fpath.clone()]
        }
    };
    {
        let mut w = std::io::BufWriter::new(std::fs::File::create(&path).expect("create dlt file"));
        for (i, m) in t.ms.iter().enumerate() {
            let mut msg = mk_dlt_msg(i as u32, m);
            msg.payload_text = None;
            msg.to_write(&mut w).expect("write dlt file");
        }
        w.flush().unwrap();
    }
    let out = std::process::Command::new(adlt).arg("convert").args(&farg).arg("-s").arg(&path).env("TZ", "UTC").output();
    let _ = std::fs::remove_file(&path);
    let _ = std::fs::remove_file(&fpath);
    match out {
        Ok(x) if x.status.success() => {
            let mut selected = HashSet::new();
            for line in String::from_utf8_lossy(&x.stdout).lines() {
                if let Some(Ok(i)) = line.split_whitespace().next().map(|t| t.parse::<usize>()) {
                    selected.insert(i);
                }
            }
            Ok(selected)
        }
        Ok(x) => Err(format!("adlt convert exit {:?}: {}", x.status.code(), String::from_utf8_lossy(&x.stderr).chars().take(400).collect::<String>())),
        Err(e) => Err(format!("cannot run adlt: {}", e)),
    }
}

fn run_eac_tasks(o: &mut Out, adlt: &str, tmp: &str, tasks: &[EacTask]) {
    // the processes run in parallel (each on its own file); events are recorded afterwards in task order
    let nthreads = 8usize;
    let mut results: Vec<Option<Result<HashSet<usize>, String>>> = (0..tasks.len()).map(|_| None).collect();
    std::thread::scope(|sc| {
        let mut handles = Vec::new();
        for k in 0..nthreads {
            handles.push(sc.spawn(move || {
                let mut r = Vec::new();
                let mut i = k;
                while i < tasks.len() {
                    r.push((i, eac_exec(adlt, tmp, i, &tasks[i])));
                    i += nthreads;
                }
                r
            }));
        }
        for h in handles {
            for (i, r) in h.join().expect("eac worker") {
                results[i] = Some(r);
            }
        }
    });
    for (t, r) in tasks.iter().zip(results.into_iter()) {
        let case = o.case;
        o.case += 1;
        o.bump(&format!("cases_binary_{}", t.mode), 1);
        if t.mode == "eac" {
            o.bump("cases_eac", 1);
        }
        let fe = match t.mode {
            "eac" => "eac",
            "conv" => "conv",
            _ => if t.short { "dlfa" } else { "dlf" },
        };
        let text = match t.mode {
            "eac" => render_eac(&t.f, t.short),
            "conv" => render_conv(&[&t.f]),
            _ => "DLF file".to_string(),
        };
        let hdr = json!({"fe": fe, "f": t.f, "src": t.src, "via": format!("adlt convert {}", if t.mode == "eac" { "--eac" } else { "-f" }), "text": text});
        let selected = match r.unwrap() {
            Ok(s) => s,
            Err(msg) => {
                o.bump("loaderr", 1);
                if t.pred.is_none() || o.admit(&format!("loaderr_binary_{}", t.mode)) {
                    o.t.ev(json!({"ev":"reset","case":case,"hdr":hdr}));
                    o.t.ev(json!({"ev":"loaderr","msg":msg}));
                    o.cases_written += 1;
                }
                continue;
            }
        };
        let mut evs = Vec::new();
        for (i, m) in t.ms.iter().enumerate() {
            let r = selected.contains(&i);
            let p = t.pred.as_ref().map(|p| p[i]);
            let d = p.map(|p| p != r).unwrap_or(true);
            if d || t.sampled {
                evs.push(json!({"ev":"decide","m":m,"result":r,"pred":p.map(|b| b as i32).unwrap_or(-1)}));
            }
            if p.is_some() {
                o.bump(if d { "drift" } else { "fast_path" }, 1);
            }
        }
        o.bump("events_observed", t.ms.len() as u64);
        if t.sampled || (!evs.is_empty() && (t.pred.is_none() || o.admit(&format!("binary_{}", t.mode)))) {
            o.t.ev(json!({"ev":"reset","case":case,"hdr":hdr}));
            o.bump("slow_path", evs.len() as u64);
            for e in evs {
                o.t.ev(e);
            }
            o.t.ev(json!({"ev":"end"}));
            o.cases_written += 1;
        }
    }
}

// ---------------------------------------------------------------------------------------------- real payloads
/// verbose argument encodings (little endian): type info + data
fn arg(type_info: u32, data: &[u8]) -> Vec<u8> {
    [&type_info.to_le_bytes()[..], data].concat()
}
fn arg_str(s: &str, utf8: bool) -> Vec<u8> {
    let mut d = ((s.len() + 1) as u16).to_le_bytes().to_vec();
    d.extend_from_slice(s.as_bytes());
    d.push(0);
    arg(0x200 | if utf8 { 0x8000 } else { 0 }, &d)
}
fn arg_raw(b: &[u8]) -> Vec<u8> {
    let mut d = (b.len() as u16).to_le_bytes().to_vec();
    d.extend_from_slice(b);
    arg(0x400, &d)
}
struct RealMsg {
    name: &'static str,
    verbose: bool,
    ext: bool,
    noar: u8,
    payload: Vec<u8>,
}
fn real_catalogue() -> Vec<RealMsg> {
    const BOOL: u32 = 0x10;
    const SINT: u32 = 0x20;
    const UINT: u32 = 0x40;
    const FLOA: u32 = 0x80;
    const HEX: u32 = 0x10000;
    let v = |name: &'static str, args: Vec<Vec<u8>>| RealMsg { name, verbose: true, ext: true, noar: args.len() as u8, payload: args.concat() };
    let nv = |name: &'static str, ext: bool, id: u32, data: &[u8]| RealMsg { name, verbose: false, ext, noar: 0, payload: [&id.to_le_bytes()[..], data].concat() };
    vec![
        v("u32", vec![arg(UINT | 3, &4_000_000_000u32.to_le_bytes())]),
        v("u8", vec![arg(UINT | 1, &[7])]),
        v("u16", vec![arg(UINT | 2, &65535u16.to_le_bytes())]),
        v("u64", vec![arg(UINT | 4, &u64::MAX.to_le_bytes())]),
        v("i8", vec![arg(SINT | 1, &(-128i8).to_le_bytes())]),
        v("i16", vec![arg(SINT | 2, &(-32768i16).to_le_bytes())]),
        v("i32", vec![arg(SINT | 3, &i32::MIN.to_le_bytes())]),
        v("i64", vec![arg(SINT | 4, &i64::MIN.to_le_bytes())]),
        v("f32", vec![arg(FLOA | 3, &3.14159f32.to_le_bytes())]),
        v("f64", vec![arg(FLOA | 4, &0.123456789012345f64.to_le_bytes())]),
        v("f64b", vec![arg(FLOA | 4, &(-1234567.5f64).to_le_bytes())]),
        v("bool_t", vec![arg(BOOL | 1, &[1])]),
        v("bool_f", vec![arg(BOOL | 1, &[0])]),
        v("raw4", vec![arg_raw(&[0xde, 0xad, 0xbe, 0xef])]),
        v("raw9", vec![arg_raw(&[0, 1, 2, 0x7f, 0x80, 0xfe, 0xff, 0x41, 0x61])]),
        v("hex32", vec![arg(UINT | 3 | HEX, &0xdeadbeefu32.to_le_bytes())]),
        v("hex8", vec![arg(UINT | 1 | HEX, &[0x0a])]),
        v("str", vec![arg_str("foo bar", false)]),
        v("str_utf8", vec![arg_str("Error in Foo", true)]),
        v("str_u32", vec![arg_str("count", false), arg(UINT | 3, &123456789u32.to_le_bytes())]),
        v("u8_raw_str", vec![arg(UINT | 1, &[255]), arg_raw(&[0xca, 0xfe, 0xba, 0xbe, 0x00]), arg_str("Done", false)]),
        v("bool_i16", vec![arg(BOOL | 1, &[1]), arg(SINT | 2, &(-1234i16).to_le_bytes())]),
        v("u64_f64_u64", vec![arg(UINT | 4, &9_999_999_999u64.to_le_bytes()), arg(FLOA | 4, &2.5f64.to_le_bytes()), arg(UINT | 4, &1u64.to_le_bytes())]),
        v("five_u32", (0..5u32).map(|i| arg(UINT | 3, &(1_000_000_007u32.wrapping_mul(i + 1)).to_le_bytes())).collect()),
        v("noargs", vec![]),
        nv("nv_ascii", true, 1, b"abcd"),
        nv("nv_bin", true, 4711, &[0, 1, 2, 0xff]),
        nv("nv_idonly", true, 0x01020304, &[]),
        nv("nv_long", true, 77, b"state changed to ON"),
        nv("nv_noext", false, 1, b"abcd"),
        nv("nv_noext_bin", false, 65536, &[0xaa, 0xbb, 0xcc]),
    ]
}

/// Filters whose search texts are cut out of the text the code base itself renders for messages with real payloads
/// (all verbose argument kinds, non-verbose messages): the abstract message carries that rendered text, TLC evaluates the
/// substring / regex relation on it. Both states of the message text are used (rendered on demand / already present).
fn run_real_payload(o: &mut Out, rng: &mut Rng, max_needles: usize) {
    let cat = real_catalogue();
    // the unfiltered messages and their text as rendered by the code base
    let mut msgs: Vec<(AMsg, &RealMsg, String)> = Vec::new();
    for (i, r) in cat.iter().enumerate() {
        let am = AMsg { ecu: vec![1, 2, 0, 0], ext: r.ext, apid: if r.ext { vec![1, 2, 0, 0] } else { vec![0; 4] }, ctid: if r.ext { vec![2, 1, 0, 0] } else { vec![0; 4] },
                        vmm: if !r.ext { 0 } else if r.verbose { 0x41 } else { 0x40 }, text: vec![], lc: 1 };
        let probe = mk_real_msg(i as u32, &am, &r.payload, r.noar, None);
        let text = catch(std::panic::AssertUnwindSafe(|| probe.payload_as_text().map(|t| t.to_string())));
        match text {
            Ok(Ok(t)) => match text_codes(&t) {
                Some(codes) => msgs.push((AMsg { text: codes, ..am }, r, t)),
                None => o.bump("real_msgs_skipped_text_not_printable_ascii", 1),
            },
            _ => o.bump("real_msgs_skipped_text_not_rendered", 1),
        }
    }
    o.bump("real_msgs", msgs.len() as u64);
    o.bump("real_msgs_text_longer_than_raw", msgs.iter().filter(|m| m.2.len() > m.1.payload.len()).count() as u64);
    let fes_rot = ["dlf", "dlfa", "api", "stream"];
    let mut rot = 0usize;
    for (mi, (_am, r, t)) in msgs.iter().enumerate() {
        let chars: Vec<char> = t.chars().collect();
        let n = chars.len();
        let raw = r.payload.len();
        // search texts: prefixes, suffixes and infixes of the rendered text with lengths around the raw payload length,
        // the whole text, the whole text + 1 character, the text with the case of a letter changed, a foreign text
        let mut needles: Vec<String> = Vec::new();
        let mut must: Vec<String> = Vec::new();
        let mut add = |v: &mut Vec<String>, s: String| {
            if !s.is_empty() && !v.contains(&s) {
                v.push(s);
            }
        };
        for l in [raw, raw + 1, n] {
            if l >= 1 && l <= n {
                add(&mut must, chars[..l].iter().collect());
                add(&mut must, chars[n - l..].iter().collect());
            }
        }
        for l in [1usize, 2, raw.saturating_sub(1), raw, raw + 1, raw + 2, n.saturating_sub(1)] {
            if l >= 1 && l <= n {
                add(&mut needles, chars[..l].iter().collect());
                add(&mut needles, chars[n - l..].iter().collect());
                if n > l + 1 {
                    add(&mut needles, chars[1..1 + l].iter().collect());
                }
            }
        }
        add(&mut needles, format!("{}x", t));
        if let Some(p) = chars.iter().position(|c| c.is_ascii_alphabetic()) {
            let mut c2 = chars.clone();
            c2[p] = if c2[p].is_ascii_lowercase() { c2[p].to_ascii_uppercase() } else { c2[p].to_ascii_lowercase() };
            add(&mut needles, c2.iter().collect());
        }
        add(&mut needles, "zzz".to_string());
        needles.retain(|x| !must.contains(x));
        while must.len() + needles.len() > max_needles && !needles.is_empty() {
            let k = rng.below(needles.len() as u64) as usize;
            needles.swap_remove(k);
        }
        must.extend(needles);
        for needle in must {
            let w = match text_codes(&needle) {
                Some(w) => w,
                None => continue,
            };
            let safe = w.iter().all(|t| *t <= 26 || (101..=126).contains(t) || (248..=257).contains(t));
            let edge_blank = needle.starts_with(' ') || needle.ends_with(' ');
            let mut crits = vec![PayCrit { k: "sub".into(), cls: "".into(), w: w.clone(), w2: vec![], ic: false },
                                 PayCrit { k: "sub".into(), cls: "".into(), w: w.clone(), w2: vec![], ic: true }];
            if safe {
                let cls = *rng.pick(&["contains", "prefix", "suffix", "flagged", "named"]);
                crits.push(PayCrit { k: "re".into(), cls: cls.into(), w: w.clone(), w2: vec![], ic: rng.chance(1, 2) });
            }
            for pc in crits {
                let plain = pc.k == "sub" && !pc.ic;
                let mut plan: Vec<(&str, bool)> = vec![("json", false), ("json", true)];
                if plain {
                    plan.extend([("dlf", false), ("dlfa", false), ("api", false), ("stream", false)]);
                } else {
                    rot += 1;
                    let fe = fes_rot[rot % 4];
                    if fe != "api" {
                        plan.push((fe, false));
                    }
                }
                for (fe, not) in plan {
                    // blanks at the edge of a DLF element text are part of the criterion (dlt-viewer writes and reads them verbatim):
                    // included since round 6 (they had been left out as a narrower reading before)
                    let _ = edge_blank;
                    let mut f = empty_filter(0);
                    f.not = not;
                    f.pay = pc.clone();
                    // the source message and two others, each with the text rendered on demand and already present
                    let others = [mi, (mi + 1 + rot) % msgs.len(), (mi + 7 + 2 * rot) % msgs.len()];
                    run_real_case(o, fe, &f, &others.iter().map(|k| &msgs[*k]).collect::<Vec<_>>());
                }
            }
        }
    }
}

fn run_real_case(o: &mut Out, fe: &str, f: &AFilter, ms: &[&(AMsg, &RealMsg, String)]) {
    let case = o.case;
    o.case += 1;
    let lib_fe = if fe == "stream" { "json" } else { fe };
    o.bump(&format!("real_cases_{}", fe), 1);
    let (built, text) = catch(std::panic::AssertUnwindSafe(|| build(lib_fe, f))).unwrap_or_else(|p| (Err(format!("panic: {}", p)), String::new()));
    let hdr = json!({"fe": lib_fe, "f": f, "src": "real-payload", "via": if fe == "stream" { "filter_as_streams" } else { "matches" }, "text": text, "needle": text_str(&f.pay.w),
                     "msgs": ms.iter().map(|x| json!({"payload": x.1.name, "rendered": x.2})).collect::<Vec<_>>()});
    o.t.ev(json!({"ev":"reset","case":case,"hdr":hdr}));
    o.cases_written += 1;
    let filter = match built {
        Ok(x) => x,
        Err(e) => {
            o.t.ev(json!({"ev":"loaderr","msg":e}));
            o.bump("loaderr", 1);
            return;
        }
    };
    // the concrete messages: (abstract message, real message) in both text states
    let mut conc: Vec<(&AMsg, usize, bool, adlt::dlt::DltMessage)> = Vec::new();
    for (am, r, t) in ms.iter().map(|x| (&x.0, x.1, &x.2)) {
        for cached in [false, true] {
            let idx = conc.len() as u32;
            conc.push((am, r.payload.len(), cached, mk_real_msg(idx, am, &r.payload, r.noar, if cached { Some(t.clone()) } else { None })));
        }
    }
    if fe == "stream" {
        // one enabled positive filter: the stream filter forwards a message iff the filter matches it
        let input: Vec<adlt::dlt::DltMessage> = conc.iter().map(|c| c.3.clone()).collect();
        let res = catch(std::panic::AssertUnwindSafe(|| {
            let (tx, rx) = std::sync::mpsc::channel();
            let (tx2, rx2) = std::sync::mpsc::channel();
            for m in input {
                tx.send(m).unwrap();
            }
            drop(tx);
            let r = adlt::filter::functions::filter_as_streams(std::slice::from_ref(&filter), &rx, &|m| tx2.send(m));
            drop(tx2);
            (r.is_ok(), rx2.iter().map(|m| m.index).collect::<HashSet<u32>>())
        }));
        match res {
            Ok((true, fwd)) => {
                for (i, (am, raw, cached, _)) in conc.iter().enumerate() {
                    o.t.ev(json!({"ev":"decide","m":am,"result":fwd.contains(&(i as u32)),"pred":-1,"raw_len":raw,"cached":cached,"mi":i / 2}));
                }
            }
            Ok((false, _)) => o.t.ev(json!({"ev":"loaderr","msg":"filter_as_streams returned an error"})),
            Err(p) => o.t.ev(json!({"ev":"panic","msg":p})),
        }
        o.bump("events_observed", conc.len() as u64);
        o.bump("slow_path", conc.len() as u64);
    } else {
        for (i, (am, raw, cached, msg)) in conc.iter().enumerate() {
            match catch(std::panic::AssertUnwindSafe(|| filter.matches(msg))) {
                Ok(r) => o.t.ev(json!({"ev":"decide","m":am,"result":r,"pred":-1,"raw_len":raw,"cached":cached,"mi":i / 2})),
                Err(p) => o.t.ev(json!({"ev":"panic","msg":p})),
            }
        }
        o.bump("events_observed", conc.len() as u64);
        o.bump("slow_path", conc.len() as u64);
        if lib_fe == "json" {
            // the filter serialised to JSON and loaded again, on the source message
            match catch(std::panic::AssertUnwindSafe(|| Filter::from_json(&filter.to_json()).map_err(|e| format!("{:?}", e)))) {
                Ok(Ok(again)) => {
                    for (am, raw, cached, msg) in conc.iter().take(2) {
                        if let Ok((b, a)) = catch(std::panic::AssertUnwindSafe(|| (filter.matches(msg), again.matches(msg)))) {
                            o.t.ev(json!({"ev":"roundtrip","m":am,"before":b,"after":a,"pred":-1,"raw_len":raw,"cached":cached}));
                            o.bump("events_observed", 1);
                            o.bump("slow_path", 1);
                        }
                    }
                }
                Ok(Err(e)) => {
                    o.t.ev(json!({"ev":"loaderr","msg":e}));
                    return;
                }
                Err(p) => {
                    o.t.ev(json!({"ev":"panic","msg":p}));
                    return;
                }
            }
        }
    }
    o.t.ev(json!({"ev":"end"}));
}

fn main() {
    quiet_panics();
    let a = Args::from_env();
    let mut o = Out { t: Trace::create(&a.str("--out", "trace.ndjson")), case: 0, cases_written: 0, drift_cap: a.num("--drift-cap", 0), family_cap: a.num("--family-cap", 0), family: Default::default(), stats: Default::default() };
    let mut rng = Rng::new(a.num("--seed", 1));
    let adlt = a.get("--adlt").map(|s| s.to_string());
    let tmp = a.str("--tmp", ".");
    let eac_max = a.num("--eac-max", 0);
    let sample = a.num("--sample", 200);
    let sample_msgs = a.num("--sample-msgs", 24) as usize;

    let mut eac_tasks: Vec<EacTask> = Vec::new();
    let ffile_one_in = a.num("--ffile-one-in", 25).max(1);
    if let Some(file) = a.get("--scenarios") {
        // pass 1 (streaming): lay out the cases, then choose the sampled ones and the eac cases that are run
        #[derive(serde::Deserialize)]
        struct Lite {
            fes: Vec<String>,
        }
        use std::io::BufRead;
        let lines = |file: &str| std::io::BufReader::new(std::fs::File::open(file).expect("open scenarios")).lines().map(|l| l.unwrap()).filter(|l| !l.trim().is_empty());
        let mut plan_fe: Vec<bool> = Vec::new(); // per case: is it an eac case
        let mut n_scn = 0u64;
        for l in lines(file) {
            let s: Lite = serde_json::from_str(&l).expect("scenario");
            for fe in &s.fes {
                plan_fe.push(fe == "eac");
            }
            n_scn += 1;
        }
        let eac_idx: Vec<usize> = (0..plan_fe.len()).filter(|i| plan_fe[*i]).collect();
        // the binary is driven for a seeded subset of the eac cases
        let mut eac_run: HashSet<usize> = HashSet::new();
        if adlt.is_some() {
            let mut idx = eac_idx.clone();
            while (eac_run.len() as u64) < eac_max && !idx.is_empty() {
                let k = rng.below(idx.len() as u64) as usize;
                eac_run.insert(idx.swap_remove(k));
            }
        }
        o.bump("eac_cases_skipped", (eac_idx.len() - eac_run.len()) as u64);
        let runnable: Vec<usize> = (0..plan_fe.len()).filter(|i| !plan_fe[*i] || eac_run.contains(i)).collect();
        let mut sampled: HashSet<usize> = HashSet::new();
        while (sampled.len() as u64) < sample.min(runnable.len() as u64) {
            sampled.insert(*rng.pick(&runnable));
        }
        // pass 2 (streaming): run the cases
        let mut pi = 0usize;
        for l in lines(file) {
          let s: Value = serde_json::from_str(&l).expect("scenario");
          let fes: Vec<String> = serde_json::from_value(s["fes"].clone()).expect("fes");
          let f: AFilter = serde_json::from_value(s["f"].clone()).expect("filter");
          // the concrete syntax is defined in the specification; the driver's rendering must be the same
          for (name, mine) in [("ecu", id_syn(&f.ecu)), ("apid", id_syn(&f.apid)), ("ctid", id_syn(&f.ctid)), ("pay", pay_syn(&f.pay))] {
              let theirs: Vec<u32> = serde_json::from_value(s["syn"][name].clone()).expect("syn");
              if mine != theirs {
                  eprintln!("driver syntax of {} differs from the specification: {:?} vs {:?}", name, mine, theirs);
                  std::process::exit(3);
              }
          }
          let mut ms0: Vec<AMsg> = Vec::new();
          let mut pred0: Vec<bool> = Vec::new();
          for e in s["ms"].as_array().expect("ms") {
              ms0.push(serde_json::from_value(e["m"].clone()).expect("msg"));
              pred0.push(e["exp"].as_bool().expect("exp"));
          }
          let f0 = f;
          for fe in &fes {
            let fe = fe.as_str();
            let (ms, pred) = (ms0.clone(), pred0.clone());
            // the kind of a filter (positive / negative / marker / event) is no criterion: Match does not depend on it, so
            // the front-ends that can write a kind get all four of them
            let mut f = f0.clone();
            if fe != "conv" && fe != "eac" {
                f.kind = (pi % 4) as u32;
            }
            // `adlt convert -f <file>`: dlt-convert lists and DLF files (one enabled positive filter without payload
            // criterion: a message is selected iff the filter matches it), for a seeded subset
            if adlt.is_some() && f0.enabled && f0.pay.k == "none" && (fe == "conv" || fe == "dlf" || fe == "dlfa")
                && (fe == "conv" || rng.below(ffile_one_in) == 0) && ms.len() <= 64 {
                eac_tasks.push(EacTask { mode: if fe == "conv" { "conv" } else { "dlf" }, f: f0.clone(), ms: ms.clone(), pred: Some(pred.clone()), sampled: false, short: fe == "dlfa", src: "tlc" });
            }
            let is_sampled = sampled.contains(&pi);
            if is_sampled && ms.len() > sample_msgs {
                // a sampled case is written in full; long message lists are thinned to a random subset for it
                // (every message is still observed and compared with the prediction in the non-sampled pass below)
                let mut keep: Vec<usize> = (0..ms.len()).collect();
                while keep.len() > sample_msgs {
                    let k = rng.below(keep.len() as u64) as usize;
                    keep.swap_remove(k);
                }
                keep.sort();
                let ms2: Vec<AMsg> = keep.iter().map(|i| ms[*i].clone()).collect();
                let pred2: Vec<bool> = keep.iter().map(|i| pred[*i]).collect();
                if fe == "eac" {
                    eac_tasks.push(EacTask { mode: "eac", f: f.clone(), ms: ms2, pred: Some(pred2), sampled: true, short: pi % 2 == 0, src: "tlc-sample" });
                } else {
                    run_lib_case(&mut o, fe, &f, &ms2, Some(&pred2), true, "tlc-sample");
                }
                o.bump("sampled_cases", 1);
            } else if is_sampled {
                o.bump("sampled_cases", 1);
            }
            let full_sample = is_sampled && ms.len() <= sample_msgs;
            if fe == "eac" {
                if eac_run.contains(&pi) {
                    eac_tasks.push(EacTask { mode: "eac", f: f.clone(), ms, pred: Some(pred), sampled: full_sample, short: pi % 2 == 1, src: "tlc" });
                }
            } else {
                run_lib_case(&mut o, fe, &f, &ms, Some(&pred), full_sample, "tlc");
            }
            pi += 1;
          }
        }
        o.bump("scenarios", n_scn);
    }

    let n_random = a.num("--random", 0);
    let nchars = a.num("--nchars", 3);
    let n_msgs = a.num("--random-msgs", 10);
    for i in 0..n_random {
        let fe = *rng.pick(&["json", "json", "jsona", "dlf", "dlfa", "api", "conv"]);
        let f = gen_filter(&mut rng, fe, nchars);
        let ms: Vec<AMsg> = (0..n_msgs).map(|_| gen_msg(&mut rng, &f, nchars)).collect();
        run_lib_case(&mut o, fe, &f, &ms, None, true, "random");
        if fe == "conv" && adlt.is_some() {
            // the same dlt-convert list through `adlt convert -f`
            eac_tasks.push(EacTask { mode: "conv", f: f.clone(), ms: ms.clone(), pred: None, sampled: true, short: false, src: "random" });
        }
        o.bump("random_cases", 1);
        // a few random id-only filters also through the binary
        if adlt.is_some() {
            if i < a.num("--random-eac", 0) {
                let mut g = gen_filter(&mut rng, "jsona", nchars);
                g = AFilter { kind: 0, enabled: true, not: false, typ: no_type(), lmin: -1, lmax: -1, pay: no_pay(), lcs: no_lcs(), ..g };
                let ms: Vec<AMsg> = (0..n_msgs * 2)
                    .map(|_| {
                        let m = gen_msg(&mut rng, &g, nchars);
                        AMsg { vmm: if m.ext { 0x41 } else { 0 }, text: vec![], ..m }
                    })
                    .collect();
                eac_tasks.push(EacTask { mode: "eac", f: g, ms, pred: None, sampled: true, short: i % 2 == 0, src: "random" });
                o.bump("random_cases", 1);
            }
        }
    }
    if let Some(adlt) = &adlt {
        run_eac_tasks(&mut o, adlt, &tmp, &eac_tasks);
    }
    let real_needles = a.num("--real-payload", 0) as usize;
    if real_needles > 0 {
        run_real_payload(&mut o, &mut rng, real_needles);
    }
    o.t.flush();
    println!("{}", json!({"cases": o.case, "cases_written": o.cases_written, "lines": o.t.lines, "stats": o.stats}));
}
