//! C10 driver: runs the real `adlt::utils::buffer_sort_messages` on message streams and lifecycle tables and
//! records the sequence handed to the outflow closure (`out` events) - see spec/SorterTrace.tla for the format.
//!
//! Sources of cases:
//!  * scenarios emitted by TLC from spec/Sorter.tla (1 tick = 1 s): replayed; the observed output order is compared
//!    with the model's prediction (data equality only). Matching cases with `contract_ok` take the fast path (no
//!    trace), every mismatch / `contract_ok = false` / every k-th case is written as a full trace for TLC;
//!  * seeded random streams ("rand"): several ECUs and lifecycles in parallel, tables built by the driver, inside and
//!    outside the bound, control requests, timestamps beyond rx, lifecycles missing in the table, ticks of 1 s / 0.1 s;
//!  * seeded random clean streams whose table is produced by the real lifecycle detector ("det").
//! The driver never judges: ordering / permutation are decided by TLC on the recorded trace.
use adlt::dlt::DltMessage;
use adlt::lifecycle::{Lifecycle, LifecycleId, LifecycleItem};
use std::cell::RefCell;
use std::collections::HashMap;
use vh::*;

const CTRL_REQUEST: u8 = (1 << 4) | (3 << 1); // mtin = request, mstp = control

#[derive(Clone)]
struct Msg {
    index: u32, // the message's index FIELD (identity is the position in the input = uid, tagged in the payload)
    ecu: String,
    lc: u32, // abstract lifecycle id (0 / an id missing in the table = unknown lifecycle)
    rx: i64, // ticks relative to base
    ts: i64, // ticks
    ctrl: bool,
}

struct Case {
    kind: &'static str,
    w: u8,
    d: i64,                 // ticks
    tick_us: u64,
    base_us: u64,
    table: Vec<(u32, i64)>, // abstract id, start (ticks relative to base)
    msgs: Vec<Msg>,
}

fn tag_payload(i: usize, rng_byte: u8) -> Vec<u8> {
    let mut pl = (i as u32).to_le_bytes().to_vec();
    pl.extend_from_slice(&[0xC1, 0x0A, rng_byte]);
    pl
}

fn build_msg(c: &Case, i: usize, m: &Msg, real_lc: LifecycleId) -> DltMessage {
    let rx_us = (c.base_us as i64 + m.rx * c.tick_us as i64) as u64;
    let ts_dms = (m.ts as u64 * c.tick_us / 100) as u32;
    let mut dm = mk_msg(m.index, &m.ecu, rx_us, ts_dms, tag_payload(i, (i * 7) as u8));
    dm.lifecycle = real_lc;
    if m.ctrl {
        dm.extended_header.as_mut().unwrap().verb_mstp_mtin = CTRL_REQUEST;
    }
    dm
}

fn hdr_json(c: &Case, case: u64, extra: Value) -> Value {
    let msgs: Vec<Value> = c.msgs.iter().map(|m| json!({"index":m.index,"ecu":m.ecu,"lc":m.lc,"rx":m.rx,"ts":m.ts,"ctrl":m.ctrl})).collect();
    let table: Vec<Value> = c.table.iter().map(|(id, s)| json!({"id":id,"start":s})).collect();
    json!({"ev":"reset","case":case,"hdr":{"kind":c.kind,"W":c.w,"D":c.d,"base":(c.base_us / c.tick_us),"tick_us":c.tick_us,
           "table":table,"msgs":msgs,"info":extra}})
}

enum Outcome {
    End,
    Err,
    Panic(String),
}

/// run the real sorter; returns the observed (idx, intact) sequence and how the call ended
fn run_sorter<M, S>(input: &[DltMessage], lcs_r: &evmap::ReadHandle<LifecycleId, LifecycleItem, M, S>, w: u8, d_us: u64) -> (Vec<(i64, u32, bool)>, Outcome)
where
    S: std::hash::BuildHasher + Clone,
    M: 'static + Clone,
{
    let (tx, rx) = std::sync::mpsc::channel();
    for m in input {
        tx.send(m.clone()).unwrap();
    }
    drop(tx);
    let outv: RefCell<Vec<DltMessage>> = RefCell::new(Vec::with_capacity(input.len()));
    let res = catch(std::panic::AssertUnwindSafe(|| {
        adlt::utils::buffer_sort_messages(
            rx,
            &|m| {
                outv.borrow_mut().push(m);
                Ok(())
            },
            lcs_r,
            w,
            d_us,
        )
    }));
    let obs = outv
        .into_inner()
        .into_iter()
        .map(|m| {
            let idx = if m.payload.len() >= 4 { u32::from_le_bytes(m.payload[0..4].try_into().unwrap()) as i64 } else { -1 };
            let known = idx >= 0 && (idx as usize) < input.len();
            (if known { idx } else { -1 }, m.index, known && input[idx as usize] == m)
        })
        .collect();
    (
        obs,
        match res {
            Ok(Ok(())) => Outcome::End,
            Ok(Err(_)) => Outcome::Err,
            Err(p) => Outcome::Panic(p),
        },
    )
}

/// build the lifecycle table (driver-built: Lifecycle::new + public start_time) and the concrete messages, run the sorter
fn exec_case(c: &Case) -> (Vec<(i64, u32, bool)>, Outcome) {
    exec_case_opt(c, false)
}

/// drop_writer: the table's write handle is dropped before sorting starts (the read handle then yields nothing: every
/// lifecycle is unknown to the sorter, whatever the table held)
fn exec_case_opt(c: &Case, drop_writer: bool) -> (Vec<(i64, u32, bool)>, Outcome) {
    let (lcs_r, mut lcs_w) = evmap::new::<LifecycleId, LifecycleItem>();
    let mut real: HashMap<u32, LifecycleId> = HashMap::new();
    for (id, start) in &c.table {
        let start_us = (c.base_us as i64 + start * c.tick_us as i64) as u64;
        let mut dummy = mk_msg(0, "LCLC", start_us, 0, vec![]);
        let mut lc = Lifecycle::new(&mut dummy);
        lc.start_time = start_us;
        real.insert(*id, lc.id());
        lcs_w.insert(lc.id(), lc);
    }
    lcs_w.refresh();
    let input: Vec<DltMessage> = c
        .msgs
        .iter()
        .enumerate()
        .map(|(i, m)| {
            // an abstract id missing in the table: 0 ("no lifecycle") or an id the table does not hold
            let rl = real.get(&m.lc).copied().unwrap_or(if m.lc == 0 { 0 } else { 0x7fff_0000 + m.lc });
            build_msg(c, i, m, rl)
        })
        .collect();
    let mut lcs_w = Some(lcs_w);
    if drop_writer {
        drop(lcs_w.take());
    }
    let r = run_sorter(&input, &lcs_r, c.w, c.d as u64 * c.tick_us);
    drop(lcs_w);
    r
}

fn write_case(t: &mut Trace, case: u64, c: &Case, obs: &[(i64, u32, bool)], oc: &Outcome, extra: Value) {
    t.ev(hdr_json(c, case, extra));
    for (uid, index, intact) in obs {
        t.ev(json!({"ev":"out","uid":uid,"index":index,"intact":intact}));
    }
    match oc {
        Outcome::End => t.ev(json!({"ev":"end"})),
        Outcome::Err => t.ev(json!({"ev":"err"})),
        Outcome::Panic(p) => t.ev(json!({"ev":"panic","msg":p})),
    }
}

// ------------------------------------------------------------------------------------------------ random streams
struct EcuGen {
    name: String,
    lcs: Vec<u32>,   // abstract ids of this ECU's lifecycles created so far
    cur: usize,      // index into lcs
    typical: i64,    // typical delay (ticks)
}

fn gen_rand(rng: &mut Rng, max_len: u64) -> Case {
    let tick_us: u64 = if rng.chance(1, 2) { 1_000_000 } else { 100_000 };
    let per_s = (1_000_000 / tick_us) as i64;
    let w = rng.range(1, 5) as u8;
    let d_s = *rng.pick(&[0u64, 0, 1, 2, 2, 3, 5, 10, 20]) as i64;
    let d = d_s * per_s;
    let base_us = if tick_us == 1_000_000 { BASE_US } else { 100_000_000_000 }; // base / tick must fit 31 bits
    let in_bound = rng.chance(2, 3);
    let backwards = !in_bound && rng.chance(1, 3);
    let missing = !in_bound && rng.chance(1, 3);
    let n = if rng.chance(1, 20) { rng.below(3) } else { rng.range(2, max_len) } as usize;
    let n_ecus = rng.range(1, 4) as usize;
    let mut table: Vec<(u32, i64)> = Vec::new();
    let mut next_id = 1u32;
    let mut rx: i64 = 2000 * per_s + rng.below(50) as i64;
    let far = 3 * d + 5 * per_s + 10; // lifecycle starts lie far enough before the first message using them
    let mut ecus: Vec<EcuGen> = (0..n_ecus)
        .map(|e| EcuGen { name: format!("EC{}", (b'A' + e as u8) as char), lcs: vec![], cur: 0, typical: if d > 0 { rng.range(0, d as u64) as i64 } else { 0 } })
        .collect();
    let style = rng.below(4); // 0: every delay uniform, 1: ECU-typical delay with jitter, 2: mostly 0 with bursts of D, 3: mostly D with some 0
    let step_max = if per_s > 1 && rng.chance(1, 2) { rng.range(1, per_s as u64) as i64 } else { *rng.pick(&[1i64, 2, 3, 12]) * per_s };
    let mut msgs = Vec::with_capacity(n);
    for _ in 0..n {
        // reception time
        if backwards && rng.chance(1, 6) {
            rx -= rng.range(1, (2 * per_s) as u64) as i64;
        } else if !rng.chance(1, 3) {
            rx += rng.range(0, step_max.max(1) as u64) as i64;
        }
        let e = rng.below(n_ecus as u64) as usize;
        let eg = &mut ecus[e];
        // lifecycle of the message: current one, sometimes a new one, sometimes an older one of the same ECU
        if eg.lcs.is_empty() || rng.chance(1, 40) {
            let start = rx - far - rng.below((100 * per_s) as u64) as i64;
            table.push((next_id, start));
            eg.lcs.push(next_id);
            eg.cur = eg.lcs.len() - 1;
            next_id += 1;
        } else if eg.lcs.len() > 1 && rng.chance(1, 15) {
            eg.cur = rng.below(eg.lcs.len() as u64) as usize;
        }
        let lc = eg.lcs[eg.cur];
        let start = table.iter().find(|t| t.0 == lc).unwrap().1;
        let ctrl = rng.chance(1, 12);
        let mut delay: i64 = if d == 0 {
            0
        } else {
            match style {
                0 => rng.range(0, d as u64) as i64,
                1 => (eg.typical + rng.range(0, (d / 4).max(1) as u64) as i64 - d / 8).clamp(0, d),
                2 => if rng.chance(1, 8) { d } else { rng.below(2) as i64 },
                _ => if rng.chance(1, 5) { 0 } else { d - rng.below(2) as i64 },
            }
        };
        if !in_bound && ((!backwards && !missing) || rng.chance(1, 10)) && rng.chance(1, 5) {
            delay = d + rng.range(1, (2 * d + 5 * per_s) as u64) as i64; // beyond the bound
        }
        let mut ts = (rx - delay - start).max(0); // (only a backwards-running reception time can make this negative)
        if rng.chance(1, 15) {
            ts = rx - start + rng.range(1, (3 * per_s) as u64) as i64; // timestamp beyond rx: calc is capped at rx
        }
        if ctrl && rng.chance(1, 2) {
            ts = rng.below((50 * per_s) as u64) as i64; // control requests carry the logger's clock
        }
        let ts = ts.max(0); // (a reception time that ran backwards below the lifecycle start)
        let mlc = if missing && rng.chance(1, 4) { if rng.chance(1, 2) { 0 } else { 900 + lc } } else { lc };
        msgs.push(Msg { index: msgs.len() as u32, ecu: eg.name.clone(), lc: mlc, rx, ts, ctrl });
    }
    if missing && rng.chance(1, 4) {
        table.clear(); // empty table: every lifecycle unknown
    }
    Case { kind: "rand", w, d, tick_us, base_us, table, msgs }
}

/// index fields that are not a consecutive numbering: never assigned (all 0), per-ECU numbering from 0, a few repeated
/// values, unique but unordered; plus "twins" (a message repeating the previous one's times) so that equal
/// calculated times occur together with equal index fields. The permutation claim covers all of these inputs.
fn gen_dup(rng: &mut Rng, max_len: u64) -> Case {
    let mut c = gen_rand(rng, max_len);
    c.kind = "dup";
    // twins: same ecu / lifecycle / rx / ts as the predecessor
    for i in 1..c.msgs.len() {
        if rng.chance(1, 3) {
            c.msgs[i] = c.msgs[i - 1].clone();
        }
    }
    let mode = rng.below(4);
    let mut per_ecu: HashMap<String, u32> = HashMap::new();
    let n = c.msgs.len() as u32;
    for (i, m) in c.msgs.iter_mut().enumerate() {
        m.index = match mode {
            0 => 0,
            1 => {
                let e = per_ecu.entry(m.ecu.clone()).or_insert(0);
                *e += 1;
                *e - 1
            }
            2 => rng.below(3) as u32,
            _ => n - i as u32 + rng.below(2) as u32, // decreasing with repeats
        };
    }
    c
}

/// merged sources: k ECUs (one lifecycle each, same start), each numbered from 0, emitting in lock step with equal
/// calculated times - what merging several files that were indexed separately looks like
fn gen_merged(rng: &mut Rng, max_len: u64) -> Case {
    let tick_us: u64 = 1_000_000;
    let w = rng.range(1, 5) as u8;
    let d = *rng.pick(&[0i64, 1, 2, 5, 20]);
    let k = rng.range(2, 4) as usize;
    let rounds = (rng.range(1, max_len.max(2)) as usize / k).max(1);
    let start = 900;
    let table: Vec<(u32, i64)> = (0..k).map(|e| (e as u32 + 1, start)).collect();
    let mut rx: i64 = 2000;
    let mut msgs = Vec::new();
    for r in 0..rounds {
        rx += rng.range(0, 3) as i64;
        let delay = if d > 0 { rng.range(0, d as u64) as i64 } else { 0 };
        for e in 0..k {
            if rng.chance(1, 10) {
                continue; // a source pauses: the numberings drift apart
            }
            msgs.push(Msg { index: r as u32, ecu: format!("EC{}", (b'A' + e as u8) as char), lc: e as u32 + 1, rx, ts: rx - delay - start, ctrl: false });
        }
    }
    Case { kind: "dup", w, d, tick_us, base_us: BASE_US, table, msgs }
}

/// sub-tick streams (1 tick = 1 us): lifecycle starts and reception times off the 0.1 ms timestamp grid by
/// {0,1,49,50,99,100,101} us, two or three lifecycles/ECUs in parallel, control requests and capped messages (placed at their
/// us reception time) among normal ones, arrival order often reversed w.r.t. the calculated time - calculated times
/// less than 0.1 ms apart are different times
fn gen_subtick(rng: &mut Rng, max_len: u64) -> Case {
    let offs = [0i64, 1, 49, 50, 99, 100, 101];
    let n_lc = rng.range(2, 3) as usize;
    let w = rng.range(1, 5) as u8;
    let d = *rng.pick(&[500i64, 2_000, 1_000_000, 2_000_000]);
    let t0: i64 = 30_000_000; // first reception time (us after base)
    let table: Vec<(u32, i64)> = (0..n_lc).map(|i| (i as u32 + 1, 1_000_000 + 700_000 * i as i64 + *rng.pick(&offs))).collect();
    let n = rng.range(2, max_len.clamp(4, 60)) as usize;
    let spread = *rng.pick(&[0i64, 300, 20_000, 400_000]); // how far the stream advances per message (0: everything in one window)
    let mut t = t0;
    let mut rx = t0;
    let mut msgs = Vec::with_capacity(n);
    for _ in 0..n {
        t += if spread == 0 { 0 } else { rng.range(0, spread as u64) as i64 };
        let k = rng.below(n_lc as u64) as usize;
        let start = table[k].1;
        // calculated time aimed at: t plus / minus up to 150 us, snapped onto this lifecycle's timestamp grid
        let aim = t + rng.range(0, 300) as i64 - 150;
        let mut ts = ((aim - start) / 100) * 100;
        let calc = start + ts;
        // received after everything before and not before its calculated time, a few us later
        rx = rx.max(calc) + *rng.pick(&offs) % 60 + rng.below(3) as i64;
        let ctrl = rng.chance(1, 8);
        if !ctrl && rng.chance(1, 10) {
            ts = ((rx - start) / 100 + rng.range(1, 3) as i64) * 100; // timestamp beyond rx: capped at the us reception time
        }
        msgs.push(Msg { index: msgs.len() as u32, ecu: format!("EC{}", (b'A' + k as u8) as char), lc: table[k].0, rx, ts, ctrl });
    }
    Case { kind: "subtick", w, d, tick_us: 1, base_us: 1_000_000_000, table, msgs }
}

// ------------------------------------------------------------------------------------------------ bursts
/// one linear family of messages: message j has k = j / q, rx = rx0 + k*rxs, ts = ts0 + k*tss (ticks of 100 us = 1 dms),
/// index = uid = idx0 + j
#[derive(Clone)]
struct Seg {
    n: u64,
    q: u64,
    rx0: i64,
    rxs: i64,
    ts0: i64,
    tss: i64,
    idx0: u64,
}
const BURST_TICK_US: u64 = 100;

fn burst_msg(segs: &[Seg], uid: u64, real_lc: LifecycleId) -> Option<DltMessage> {
    let g = segs.iter().find(|g| uid >= g.idx0 && uid < g.idx0 + g.n)?;
    let k = ((uid - g.idx0) / g.q) as i64;
    let mut m = mk_msg(uid as u32, "ECUA", (BASE_US as i64 + (g.rx0 + k * g.rxs) * BURST_TICK_US as i64) as u64, (g.ts0 + k * g.tss) as u32, (uid as u32).to_le_bytes().to_vec());
    m.lifecycle = real_lc;
    Some(m)
}
fn burst_hash(m: &DltMessage) -> u32 {
    let mut b = Vec::with_capacity(32);
    b.extend_from_slice(&m.index.to_le_bytes());
    b.extend_from_slice(&m.reception_time_us.to_le_bytes());
    b.extend_from_slice(&m.timestamp_dms.to_le_bytes());
    b.extend_from_slice(&m.lifecycle.to_le_bytes());
    b.extend_from_slice(&m.payload);
    hash31(&b)
}

/// the segments of a burst of n messages, all inside the buffering window (D = 2 s, window still young), within the bound,
/// arriving out of calculated-time order: block A (delay 0.1 ms), block B one second "older", then 16 late ones with
/// descending calculated times 1.9 s back; groups of q messages share reception time and timestamp (ties by index)
fn burst_segs(n: u64, q: u64) -> (Vec<Seg>, i64) {
    let start: i64 = 100_000; // lifecycle start (ticks relative to base)
    let late = 16.min(n / 4).max(1);
    let na = (n - late) / 2;
    let nb = n - late - na;
    let rx_a = start + 300_000;
    let ka = ((na.max(1) - 1) / q) as i64;
    let rx_b = rx_a + ka + 1;
    let kb = ((nb.max(1) - 1) / q) as i64;
    let rx_c = rx_b + kb + 1;
    let mut segs = Vec::new();
    let mut idx0 = 0;
    for (cnt, qq, rx0, rxs, delay0, dstep) in [(na, q, rx_a, 1i64, 1i64, 0i64), (nb, q, rx_b, 1, 10_000, 0), (late, 1, rx_c, 0, 19_000, 3)] {
        if cnt == 0 {
            continue;
        }
        // ts = rx - delay - start; the delay grows by dstep per group
        segs.push(Seg { n: cnt, q: qq, rx0, rxs, ts0: rx0 - delay0 - start, tss: rxs - dstep, idx0 });
        idx0 += cnt;
    }
    (segs, start)
}

struct BurstSummary {
    count: u64,
    hash: u32,
    not_intact: u64,
    first_inv: i64,
    inv_uids: (i64, i64),
}

/// run the real sorter on a burst, streaming (nothing but the sorter's own buffer holds the messages)
fn run_burst(segs: &[Seg], start: i64, w: u8, d_ticks: i64) -> (u32, BurstSummary, Outcome) {
    let (lcs_r, mut lcs_w) = evmap::new::<LifecycleId, LifecycleItem>();
    let start_us = (BASE_US as i64 + start * BURST_TICK_US as i64) as u64;
    let mut dummy = mk_msg(0, "LCLC", start_us, 0, vec![]);
    let mut lc = Lifecycle::new(&mut dummy);
    lc.start_time = start_us;
    let real_lc = lc.id();
    lcs_w.insert(real_lc, lc);
    lcs_w.refresh();
    let total: u64 = segs.iter().map(|g| g.n).sum();
    let (tx, rx) = std::sync::mpsc::sync_channel::<DltMessage>(4096);
    let segs_p = segs.to_vec();
    let producer = std::thread::spawn(move || {
        let mut h: u32 = 0;
        for uid in 0..total {
            let m = burst_msg(&segs_p, uid, real_lc).unwrap();
            h = (h + burst_hash(&m)) & 0x7fff_ffff;
            if tx.send(m).is_err() {
                break;
            }
        }
        h
    });
    let sum = RefCell::new(BurstSummary { count: 0, hash: 0, not_intact: 0, first_inv: -1, inv_uids: (-1, -1) });
    let last: RefCell<Option<((i64, u32), i64)>> = RefCell::new(None);
    let res = catch(std::panic::AssertUnwindSafe(|| {
        adlt::utils::buffer_sort_messages(
            rx,
            &|m| {
                let mut s = sum.borrow_mut();
                let uid = if m.payload.len() >= 4 { u32::from_le_bytes(m.payload[0..4].try_into().unwrap()) as i64 } else { -1 };
                s.hash = (s.hash + burst_hash(&m)) & 0x7fff_ffff;
                let orig = if uid >= 0 { burst_msg(segs, uid as u64, real_lc) } else { None };
                match &orig {
                    Some(o) if *o == m => {
                        // the message's key: calculated time of its family (lifecycle start + timestamp, never capped here) and index
                        let key = (start + o.timestamp_dms as i64, m.index);
                        let mut l = last.borrow_mut();
                        if let Some((lk, luid)) = *l {
                            if key < lk && s.first_inv < 0 {
                                s.first_inv = s.count as i64;
                                s.inv_uids = (luid, uid);
                            }
                        }
                        *l = Some((key, uid));
                    }
                    _ => s.not_intact += 1,
                }
                s.count += 1;
                Ok(())
            },
            &lcs_r,
            w,
            d_ticks as u64 * BURST_TICK_US,
        )
    }));
    let hash_in = producer.join().unwrap_or(0);
    drop(lcs_w);
    (
        hash_in,
        sum.into_inner(),
        match res {
            Ok(Ok(())) => Outcome::End,
            Ok(Err(_)) => Outcome::Err,
            Err(p) => Outcome::Panic(p),
        },
    )
}

fn segs_json(segs: &[Seg]) -> Vec<Value> {
    segs.iter().map(|g| json!({"n":g.n,"q":g.q,"rx0":g.rx0,"rxs":g.rxs,"ts0":g.ts0,"tss":g.tss,"lc":1,"idx0":g.idx0})).collect()
}

/// a burst as summary case; small ones additionally as a full trace (the same messages as an ordinary case), which ties the
/// driver's summary scan to TLC's own judgement of the complete output
fn do_burst(t: &mut Trace, case: &mut u64, n: u64, q: u64, twin: bool) {
    let (segs, start) = burst_segs(n, q);
    let (w, d) = (3u8, 20_000i64);
    let (hash_in, s, oc) = run_burst(&segs, start, w, d);
    t.ev(json!({"ev":"reset","case":*case,"hdr":{"kind":"burst","W":w,"D":d,"base":0,"tick_us":BURST_TICK_US,"table":[{"id":1,"start":start}],
        "msgs":[],"segs":segs_json(&segs),"hash_in":hash_in,"n":n,"info":{}}}));
    t.ev(json!({"ev":"burst_out","count":s.count,"hash":s.hash,"not_intact":s.not_intact,"first_inv":s.first_inv,"inv_uid_before":s.inv_uids.0,"inv_uid":s.inv_uids.1}));
    match &oc {
        Outcome::End => t.ev(json!({"ev":"end"})),
        Outcome::Err => t.ev(json!({"ev":"err"})),
        Outcome::Panic(p) => t.ev(json!({"ev":"panic","msg":p})),
    }
    *case += 1;
    if twin {
        let mut msgs = Vec::new();
        for g in &segs {
            for j in 0..g.n {
                let k = (j / g.q) as i64;
                msgs.push(Msg { index: (g.idx0 + j) as u32, ecu: "ECUA".into(), lc: 1, rx: g.rx0 + k * g.rxs, ts: g.ts0 + k * g.tss, ctrl: false });
            }
        }
        let c = Case { kind: "burst-twin", w, d, tick_us: BURST_TICK_US, base_us: BASE_US, table: vec![(1, start)], msgs };
        let (obs, oc) = exec_case(&c);
        write_case(t, *case, &c, &obs, &oc, json!({"twin_of": *case - 1}));
        *case += 1;
    }
}

/// clean boots on a few ECUs, table produced by the real lifecycle detector run to completion before sorting
fn gen_det(rng: &mut Rng, max_len: u64) -> Option<(Case, Vec<DltMessage>, evmap::ReadHandle<LifecycleId, LifecycleItem>, evmap::WriteHandle<LifecycleId, LifecycleItem>)> {
    let tick_us: u64 = 1_000_000;
    let w = rng.range(1, 5) as u8;
    let d = *rng.pick(&[0i64, 1, 2, 3, 5, 10, 20]);
    let jitter = if rng.chance(3, 4) { d } else { d + rng.range(1, 8) as i64 }; // beyond D: outside the bound
    let n_ecus = rng.range(1, 3) as usize;
    let n = rng.range(2, max_len) as usize;
    let mut rx: i64 = 1000;
    // per ECU: current boot's start (rx - ts without delay)
    let mut boot: Vec<i64> = (0..n_ecus).map(|_| rx - rng.range(5, 40) as i64).collect();
    let mut raw: Vec<DltMessage> = Vec::with_capacity(n);
    let c0 = Case { kind: "det", w, d, tick_us, base_us: BASE_US, table: vec![], msgs: vec![] };
    for i in 0..n {
        if !rng.chance(1, 3) {
            rx += rng.range(0, 3) as i64;
        }
        let e = rng.below(n_ecus as u64) as usize;
        if rng.chance(1, 60) {
            rx += 200; // a clean reboot of this ECU after a long silence
            boot[e] = rx - rng.range(3, 10) as i64;
        }
        let delay = if jitter == 0 { 0 } else { rng.range(0, jitter as u64) as i64 };
        let ts = (rx - delay - boot[e]).max(0);
        let m = Msg { index: i as u32, ecu: format!("EC{}", (b'A' + e as u8) as char), lc: 0, rx, ts, ctrl: false };
        raw.push(build_msg(&c0, i, &m, 0));
    }
    // the real detector, to completion, unbounded channels
    let (lcs_r, lcs_w) = evmap::new::<LifecycleId, LifecycleItem>();
    let (tx, rxc) = std::sync::mpsc::channel();
    for m in &raw {
        tx.send(m.clone()).unwrap();
    }
    drop(tx);
    let outv: RefCell<Vec<DltMessage>> = RefCell::new(Vec::new());
    let res = catch(std::panic::AssertUnwindSafe(|| {
        adlt::lifecycle::parse_lifecycles_buffered_from_stream(lcs_w, rxc, &|m| {
            outv.borrow_mut().push(m);
            Ok(())
        })
    }));
    let lcs_w = match res {
        Ok(w) => w,
        Err(_) => return None, // a detector panic is the lifecycle properties' business (C05), not C10's
    };
    let mut input = outv.into_inner();
    // renumber ids by first appearance; table entries of the lifecycles the messages refer to
    let mut ids: Vec<LifecycleId> = Vec::new();
    let mut c = c0;
    {
        let rd = lcs_r.read()?;
        for (i, m) in input.iter_mut().enumerate() {
            m.index = i as u32;
            m.payload = tag_payload(i, (i * 7) as u8);
            let pos = match ids.iter().position(|x| *x == m.lifecycle) {
                Some(p) => p,
                None => {
                    ids.push(m.lifecycle);
                    if let Some(lc) = rd.get_one(&m.lifecycle) {
                        let rel = lc.start_time as i64 - BASE_US as i64;
                        if rel % tick_us as i64 != 0 {
                            return None; // off-grid start: cannot be expressed in ticks (does not happen with on-grid input)
                        }
                        c.table.push((ids.len() as u32, rel / tick_us as i64));
                    }
                    ids.len() - 1
                }
            };
            c.msgs.push(Msg {
                index: i as u32,
                ecu: format!("{}", m.ecu),
                lc: pos as u32 + 1,
                rx: (m.reception_time_us as i64 - BASE_US as i64) / tick_us as i64,
                ts: m.timestamp_dms as i64 / 10_000,
                ctrl: m.is_ctrl_request(),
            });
        }
    }
    Some((c, input, lcs_r, lcs_w))
}

fn main() {
    if std::env::var("VERIF_LOUD").is_err() {
        quiet_panics();
    }
    let a = Args::from_env();
    let mut t = Trace::create(&a.str("--out", "trace.ndjson"));
    let mut case = a.num("--first-case", 0);
    let mut rng = Rng::new(a.num("--seed", 1));
    let (mut replayed, mut fast, mut slow, mut drift, mut sampled, mut drift_dup) = (0u64, 0u64, 0u64, 0u64, 0u64, 0u64);
    let mut drift_untraced = 0u64;
    if let Some(f) = a.get("--scenarios") {
        // streamed line by line (thorough emits > 10^6 scenarios)
        use std::io::BufRead;
        let rd = std::io::BufReader::new(std::fs::File::open(f).expect("open scenarios"));
        let every = a.num("--sample-every", 1).max(1);
        let max_drift = a.num("--max-drift-traces", 2000);
        let off = rng.below(every);
        let scns = rd.lines().map(|l| l.unwrap()).filter(|l| !l.trim().is_empty()).map(|l| serde_json::from_str::<Value>(&l).expect("json"));
        for (k, scn) in scns.enumerate() {
            // (tick_us / base / kind are only present in replay files written by the check from a recorded case)
            let tick_us = scn["tick_us"].as_u64().unwrap_or(TICK_US);
            let c = Case {
                kind: match scn["kind"].as_str() { Some("rand") => "rand", Some("det") => "det", Some("dup") => "dup", Some("subtick") => "subtick", _ => "scn" },
                w: scn["w"].as_u64().unwrap() as u8,
                d: scn["d"].as_i64().unwrap(),
                tick_us,
                base_us: scn["base"].as_u64().map(|b| b * tick_us).unwrap_or(BASE_US),
                table: scn["table"].as_array().unwrap().iter().map(|e| (e["id"].as_u64().unwrap() as u32, e["start"].as_i64().unwrap())).collect(),
                msgs: scn["msgs"]
                    .as_array()
                    .unwrap()
                    .iter()
                    .enumerate()
                    .map(|(i, m)| Msg {
                        index: m["index"].as_u64().unwrap_or(i as u64) as u32,
                        ecu: m["ecu"].as_str().unwrap().to_string(),
                        lc: m["lc"].as_u64().unwrap() as u32,
                        rx: m["rx"].as_i64().unwrap(),
                        ts: m["ts"].as_i64().unwrap(),
                        ctrl: m["ctrl"].as_bool().unwrap(),
                    })
                    .collect(),
            };
            let pred: Vec<i64> = scn["out"].as_array().unwrap().iter().map(|x| x.as_i64().unwrap()).collect();
            let contract_ok = scn["contract_ok"].as_bool().unwrap();
            let (obs, oc) = exec_case(&c);
            replayed += 1;
            let same = matches!(oc, Outcome::End) && obs.len() == pred.len() && obs.iter().zip(pred.iter()).all(|(o, p)| o.0 == *p && o.2);
            // with repeated index fields the heap's order among equal (calc, index) is unspecified: such a drift is expected
            let dup_mode = scn["index_mode"].as_str().map(|s| s != "pos").unwrap_or(false);
            if !same {
                if dup_mode { drift_dup += 1 } else { drift += 1 }
            }
            let sample = (k as u64) % every == off;
            if same && contract_ok && !sample {
                fast += 1;
                continue;
            }
            if same && contract_ok {
                sampled += 1;
            }
            // a tree that deviates everywhere would put every scenario on the slow path: trace the first `max_drift` drifting
            // scenarios (plenty for a verdict), count the rest
            if !same && slow - sampled >= max_drift {
                drift_untraced += 1;
                continue;
            }
            slow += 1;
            write_case(&mut t, case, &c, &obs, &oc, json!({"scn":k,"pred":pred,"drift":!same,"contract_ok":contract_ok}));
            case += 1;
        }
    }
    let n_random = a.num("--random", 0);
    let n_det = a.num("--det", 0);
    let max_len = a.num("--max-len", 120);
    for _ in 0..n_random {
        let c = gen_rand(&mut rng, max_len);
        let (obs, oc) = exec_case(&c);
        write_case(&mut t, case, &c, &obs, &oc, json!({}));
        case += 1;
    }
    // cases with repeated / unset / unordered index fields: their own generator stream, so the cases above stay the same
    let n_dup = a.num("--dup", 0);
    let mut rng_dup = Rng::new(a.num("--seed", 1) ^ 0xD0_D0D0);
    for k in 0..n_dup {
        let c = if k % 3 == 2 { gen_merged(&mut rng_dup, max_len) } else { gen_dup(&mut rng_dup, max_len) };
        let (obs, oc) = exec_case(&c);
        write_case(&mut t, case, &c, &obs, &oc, json!({}));
        case += 1;
    }
    // lifecycle tables whose write handle is gone before sorting starts (logged as an empty table: nothing is known)
    let n_now = a.num("--nowriter", 0);
    let mut rng_now = Rng::new(a.num("--seed", 1) ^ 0x0DEAD);
    for _ in 0..n_now {
        let mut c = gen_rand(&mut rng_now, max_len.min(60));
        c.kind = "nowriter";
        let (obs, oc) = exec_case_opt(&c, true);
        c.table.clear();
        write_case(&mut t, case, &c, &obs, &oc, json!({}));
        case += 1;
    }
    // sub-tick streams: their own generator stream as well
    let n_sub = a.num("--subtick", 0);
    let mut rng_sub = Rng::new(a.num("--seed", 1) ^ 0x5B_71C);
    for _ in 0..n_sub {
        let c = gen_subtick(&mut rng_sub, max_len);
        let (obs, oc) = exec_case(&c);
        write_case(&mut t, case, &c, &obs, &oc, json!({}));
        case += 1;
    }
    // bursts: more messages inside the buffering window than the sorter preallocates (2^20); `--burst 1`: one such case,
    // `--burst 4`: all sizes; small bursts (with full-trace twins) always
    let n_burst = a.num("--burst", 0);
    let mut burst_sizes: Vec<u64> = Vec::new();
    if n_burst > 0 {
        for (n, q) in [(40u64, 4u64), (257, 16), (1000, 1), (3000, 64)] {
            do_burst(&mut t, &mut case, n, q, true);
        }
        let big: &[u64] = if n_burst >= 4 { &[(1 << 20) - 1, 1 << 20, (1 << 20) + 16, (1 << 20) + (1 << 20) / 5] } else { &[(1 << 20) + 16] };
        for n in big {
            do_burst(&mut t, &mut case, *n, 1024, false);
            burst_sizes.push(*n);
        }
    }
    let (mut det_done, mut det_skipped) = (0u64, 0u64);
    for _ in 0..n_det {
        match gen_det(&mut rng, max_len) {
            Some((c, input, lcs_r, lcs_w)) => {
                let (obs, oc) = run_sorter(&input, &lcs_r, c.w, c.d as u64 * c.tick_us);
                drop(lcs_w);
                write_case(&mut t, case, &c, &obs, &oc, json!({}));
                case += 1;
                det_done += 1;
            }
            None => det_skipped += 1,
        }
    }
    t.flush();
    println!(
        "{}",
        json!({"cases": case, "lines": t.lines, "replayed": replayed, "fast_path": fast, "slow_path": slow, "drift": drift, "drift_dup_index": drift_dup, "drift_untraced": drift_untraced, "dup": n_dup, "subtick": n_sub, "nowriter": n_now, "burst_sizes": burst_sizes,
               "sampled": sampled, "random": n_random, "det": det_done, "det_skipped": det_skipped})
    );
}
