//! Lifecycle-detector driver (C05, C06, C07, C08): runs the real `parse_lifecycles_buffered_from_stream` on
//!  * TLC-generated behaviours of spec/LcDetector.tla (with the model's predicted observables: fast path = equality),
//!  * seeded random streams (always recorded as full traces, validated by TLC against spec/LcTrace.tla),
//!  * clean-boot traces with ground truth (C08),
//!  * the repository's example files.
//! It records what was observed; it never computes an expectation.
use adlt::dlt::{DltExtendedHeader, DltMessage};
use adlt::lifecycle::{get_sorted_lifecycles_as_vec, parse_lifecycles_buffered_from_stream, Lifecycle, LifecycleId};
use std::cell::RefCell;
use std::collections::BTreeMap;
use vh::*;

#[derive(Clone, Debug)]
struct In {
    ecu: String,
    rx_us: u64,
    ts_dms: u32,
    kind: String, // norm | ctrl (control request) | nots (no timestamp flag) | cresp1 (verbose control response, 1-byte bool arg)
                  // | crsw<n> (non-verbose control response GET_SOFTWARE_VERSION: service id + n further payload bytes)
    boot: u32,    // ground truth for clean traces (0 = n/a)
    index: Option<u32>, // the message's index field (None = its position in the stream)
}

fn build(pos: u32, i: &In) -> DltMessage {
    let mut m = mk_msg(i.index.unwrap_or(pos), &i.ecu, i.rx_us, i.ts_dms, vec![pos as u8, (pos >> 8) as u8, (pos >> 16) as u8, 0x5a]);
    if let Some(n) = i.kind.strip_prefix("crsw") {
        // non-verbose control response, service id 19 (GET_SOFTWARE_VERSION), n further bytes (status, length, text ...)
        let n: usize = n.parse().unwrap_or(0);
        m.extended_header = Some(DltExtendedHeader { verb_mstp_mtin: (3 << 1) | (2 << 4), noar: 0, apid: char4("APID"), ctid: char4("CTID") });
        let mut p = vec![19u8, 0, 0, 0];
        let tail: [u8; 12] = [0, 6, 0, 0, 0, b'S', b'W', b' ', b'1', b'.', b'0', 0];
        p.extend(tail.iter().cycle().take(n));
        m.payload = p;
        return m;
    }
    match i.kind.as_str() {
        "ctrl" => {
            m.extended_header = Some(DltExtendedHeader { verb_mstp_mtin: (3 << 1) | (1 << 4), noar: 0, apid: char4("APID"), ctid: char4("CTID") });
        }
        "nots" => {
            m.standard_header.htyp &= !0x10;
            m.timestamp_dms = 0;
        }
        "cresp1" => {
            // verbose control response whose first argument is a 1-byte bool
            m.extended_header = Some(DltExtendedHeader { verb_mstp_mtin: (3 << 1) | (2 << 4) | 1, noar: 1, apid: char4("APID"), ctid: char4("CTID") });
            m.payload = vec![0x11, 0, 0, 0, 1];
        }
        _ => {}
    }
    m
}

#[derive(Default, Debug)]
struct Obs {
    delivered: Vec<(i64, String, u32, bool, bool, bool, bool)>, // position of the input it is, ecu, lc, visible, ecu_ok, vis2, intact
    table: Vec<(u32, String, u32, u64, u64, u32)>,               // id, ecu, nr, start_us, end_us, resume_of
    listing: Option<Result<Vec<u32>, String>>,
    panic: Option<String>,
}

fn ecu_str(e: &adlt::dlt::DltChar4) -> String {
    String::from_utf8_lossy(e.as_buf()).trim_end_matches('\0').to_string()
}

/// run the detector on the segments (segment k+1 starts with the table left by segment k = pre-populated table)
fn run_detector(segments: &[Vec<DltMessage>], second_thread: bool) -> Obs {
    let mut obs = Obs::default();
    let (lcs_r, lcs_w) = evmap::new::<LifecycleId, Lifecycle>();
    let originals: Vec<DltMessage> = segments.iter().flatten().cloned().collect();
    let delivered = RefCell::new(Vec::new());
    let delivered_flags = RefCell::new(vec![false; originals.len()]);
    let first_undelivered = RefCell::new(0usize); // everything before it has been delivered (keeps the search linear over a run)
    // optional reader in another thread: synchronous hand-shake, so its answer reflects the moment of delivery
    let (req_tx, req_rx) = std::sync::mpsc::sync_channel::<(LifecycleId, adlt::dlt::DltChar4)>(0);
    let (rsp_tx, rsp_rx) = std::sync::mpsc::sync_channel::<bool>(0);
    let reader = if second_thread {
        let r2 = lcs_r.clone();
        Some(std::thread::spawn(move || {
            for (id, ecu) in req_rx {
                let ok = r2.get_one(&id).map(|lc| lc.ecu == ecu).unwrap_or(false);
                if rsp_tx.send(ok).is_err() {
                    break;
                }
            }
        }))
    } else {
        drop(req_rx);
        drop(rsp_tx);
        None
    };
    let mut lcs_w = Some(lcs_w);
    for seg in segments {
        let (tx, rx) = std::sync::mpsc::channel();
        for m in seg {
            tx.send(m.clone()).unwrap();
        }
        drop(tx);
        let w = lcs_w.take().unwrap();
        let r = catch(std::panic::AssertUnwindSafe(|| {
            parse_lifecycles_buffered_from_stream(w, rx, &|m: DltMessage| {
                let (visible, ecu_ok) = match lcs_r.get_one(&m.lifecycle) {
                    Some(lc) => (true, lc.ecu == m.ecu),
                    None => (false, false),
                };
                let vis2 = if second_thread {
                    req_tx.send((m.lifecycle, m.ecu)).unwrap();
                    rsp_rx.recv().unwrap()
                } else {
                    visible && ecu_ok
                };
                // which input is this? the first not yet delivered input equal to it in everything but the lifecycle
                // (delivery must be in input order, so normally that is the next one); -1 / not intact if there is none
                let mut dl = delivered_flags.borrow_mut();
                let start = {
                    let mut c = first_undelivered.borrow_mut();
                    while *c < dl.len() && dl[*c] { *c += 1; }
                    *c
                };
                let same = |o: &DltMessage| {
                    let mut o2 = o.clone();
                    o2.lifecycle = m.lifecycle;
                    o2 == m
                };
                let found = (start..originals.len()).chain(0..start).find(|p| !dl[*p] && same(&originals[*p]));
                let (pos, intact) = match found {
                    Some(p) => {
                        dl[p] = true;
                        (p as i64, true)
                    }
                    None => (-1, false),
                };
                delivered.borrow_mut().push((pos, ecu_str(&m.ecu), m.lifecycle, visible, ecu_ok, vis2, intact));
                Ok(())
            })
        }));
        match r {
            Ok(w) => lcs_w = Some(w),
            Err(msg) => {
                obs.panic = Some(msg);
                break;
            }
        }
    }
    drop(req_tx);
    if let Some(t) = reader {
        let _ = t.join();
    }
    obs.delivered = delivered.into_inner();
    if obs.panic.is_none() {
        if let Some(rr) = lcs_r.read() {
            for (id, b) in &rr {
                match b.get_one() {
                    Some(lc) => obs.table.push((*id, ecu_str(&lc.ecu), lc.nr_msgs, lc.start_time, lc.end_time(), lc.verif_resume_lc_id().unwrap_or(0))),
                    // a key whose value bag is empty is still a listed entry (readers iterate over it): recorded with 0 messages
                    None => obs.table.push((*id, "?".to_string(), 0, epoch(), epoch(), 0)),
                }
            }
            obs.table.sort();
            obs.listing = Some(catch(std::panic::AssertUnwindSafe(|| get_sorted_lifecycles_as_vec(&rr).iter().map(|l| l.id()).collect::<Vec<u32>>())));
        }
    }
    drop(lcs_w);
    obs
}

/// lifecycle ids come from a process-global counter: renumber relative to the smallest id seen in this case
fn id_base(obs: &Obs) -> u32 {
    let a = obs.delivered.iter().map(|d| d.2).filter(|x| *x != 0).min();
    let b = obs.table.iter().map(|t| t.0).min();
    match (a, b) {
        (Some(a), Some(b)) => a.min(b) - 1,
        (Some(a), None) => a - 1,
        (None, Some(b)) => b - 1,
        _ => 0,
    }
}
fn rid(id: u32, base: u32) -> u32 {
    if id == 0 { 0 } else { id - base }
}

fn write_trace(t: &mut Trace, case: u64, hdr: Value, inputs: &[In], obs: &Obs) {
    write_trace_opt(t, case, hdr, inputs, obs, None)
}
/// with `summary`: the per-message `in` / `out` events are replaced by that one event (huge cases)
fn write_trace_opt(t: &mut Trace, case: u64, hdr: Value, inputs: &[In], obs: &Obs, summary: Option<Value>) {
    t.ev(json!({"ev":"reset","case":case,"hdr":hdr}));
    let base = id_base(obs);
    let big = summary.is_some();
    if let Some(sm) = summary {
        t.ev(sm);
    }
    for (i, x) in inputs.iter().enumerate() {
        if big { break; }
        t.ev(json!({"ev":"in","idx":i,"ecu":x.ecu,"rx_ms":((x.rx_us.saturating_sub(epoch()))/1000) as u32 & 0x7fff_ffff,"ts":x.ts_dms & 0x7fff_ffff,"kind":x.kind,"boot":x.boot,"ix":x.index.map(|v| (v & 0x7fff_ffff) as i64).unwrap_or(i as i64)}));
    }
    for d in &obs.delivered {
        if big { break; }
        t.ev(json!({"ev":"out","idx":d.0,"ecu":d.1,"lc":rid(d.2, base),"visible":d.3,"ecu_ok":d.4,"vis2":d.5,"intact":d.6}));
    }
    if let Some(p) = &obs.panic {
        t.ev(json!({"ev":"panic","msg":p}));
        return;
    }
    // start/end as exact ticks for on-grid cases plus dense ranks (order-isomorphic) for the listing contract
    let mut starts: Vec<u64> = obs.table.iter().map(|x| x.3).collect();
    starts.sort();
    starts.dedup();
    let tab: Vec<Value> = obs.table.iter().map(|x| {
        let tick = |us: u64| -> i64 { if us >= epoch() && (us - epoch()) / tick_us() < 0x7fff_ffff { ((us - epoch()) / tick_us()) as i64 } else { -1 } };
        let ongrid = x.3 >= epoch() && (x.3 - epoch()) % tick_us() == 0 && x.4 >= epoch() && (x.4 - epoch()) % tick_us() == 0;
        json!({"id":rid(x.0, base),"ecu":x.1,"nr":x.2,"start":tick(x.3),"end":tick(x.4),"ongrid":ongrid,
               "start_rank":starts.binary_search(&x.3).unwrap(),"res":rid(x.5, base)})
    }).collect();
    t.ev(json!({"ev":"table","t":tab}));
    match &obs.listing {
        Some(Ok(ids)) => t.ev(json!({"ev":"listing","ids":ids.iter().map(|i| rid(*i, base)).collect::<Vec<u32>>()})),
        Some(Err(msg)) => t.ev(json!({"ev":"listing_panic","msg":msg})),
        None => {}
    }
    t.ev(json!({"ev":"end"}));
}

/// reception-time origin of the grid: 2022 by default; `--epoch0` puts the grid at the start of the Unix epoch (recordings of
/// loggers without a real-time clock), where a timestamp can exceed the reception time
static EPOCH: std::sync::atomic::AtomicU64 = std::sync::atomic::AtomicU64::new(vh::BASE_US);
fn epoch() -> u64 {
    EPOCH.load(std::sync::atomic::Ordering::Relaxed)
}
/// size of one grid tick: 1 s by default (the scaling of the design model); `--tick-us 1000` records on a 1 ms grid (clean-boot
/// traces with off-times of a few ms after boots of minutes to hours - the contract is stated in ticks, whatever their size)
static TICK: std::sync::atomic::AtomicU64 = std::sync::atomic::AtomicU64::new(vh::TICK_US);
fn tick_us() -> u64 {
    TICK.load(std::sync::atomic::Ordering::Relaxed)
}

fn grid_in(ecu: &str, rx_tick: u64, ts_tick: u64, kind: &str) -> In {
    In { ecu: ecu.to_string(), rx_us: epoch() + rx_tick * tick_us(), ts_dms: (ts_tick * (tick_us() / 100)) as u32, kind: kind.to_string(), boot: 0, index: None }
}

/// compare the observation with the prediction TLC printed for this behaviour (data equality only)
fn matches_prediction(scn: &Value, obs: &Obs) -> bool {
    let ppanic = scn["panic"].as_bool().unwrap();
    if ppanic != obs.panic.is_some() {
        return false;
    }
    if ppanic {
        return true;
    }
    let base = id_base(obs);
    let pd = scn["delivered"].as_array().unwrap();
    if pd.len() != obs.delivered.len() {
        return false;
    }
    for (p, o) in pd.iter().zip(obs.delivered.iter()) {
        if p["idx"].as_i64().unwrap() != o.0 || p["ecu"].as_str().unwrap() != o.1 || p["lc"].as_u64().unwrap() as u32 != rid(o.2, base)
            || p["vis"].as_bool().unwrap() != (o.3 && o.4) || !o.6 || o.5 != (o.3 && o.4)
        {
            return false;
        }
    }
    let mut pt: Vec<(u32, String, u32, u64, u64, u32)> = scn["pub"].as_array().unwrap().iter().map(|e| {
        (e["id"].as_u64().unwrap() as u32, e["ecu"].as_str().unwrap().to_string(), e["nr"].as_u64().unwrap() as u32,
         e["start"].as_u64().unwrap(), e["end"].as_u64().unwrap(), e["res"].as_u64().unwrap() as u32)
    }).collect();
    pt.sort();
    let ot: Vec<(u32, String, u32, u64, u64, u32)> = obs.table.iter().map(|x| {
        (rid(x.0, base), x.1.clone(), x.2, (x.3 - epoch()) / tick_us(), (x.4 - epoch()) / tick_us(), rid(x.5, base))
    }).collect();
    pt == ot
}

struct Gen {
    rng: Rng,
}
impl Gen {
    /// random stream on the model's grid (these alphabets are known to reach merges / confirmations / resumes)
    fn grid_stream(&mut self, max_n: u64, ecus: &[&str], kinds: &[&str]) -> Vec<In> {
        let n = self.rng.range(2, max_n);
        let rxd = [0u64, 0, 1, 1, 2, 9, 10, 11, 29, 31, 59, 60, 61, 62, 120];
        let tsv = [0u64, 0, 1, 2, 9, 10, 11, 12, 20, 59, 60, 61, 70, 71, 116, 118, 130];
        let mut rx = 1000;
        // index fields: consecutive, or (a third of the streams) with occasional jumps beyond the regular-refresh distance
        let jumps = self.rng.chance(1, 3);
        let mut ix = 0u32;
        (0..n).map(|_| {
            rx += *self.rng.pick(&rxd);
            let k = if self.rng.chance(1, 8) { *self.rng.pick(kinds) } else { "norm" };
            let ts = if k == "nots" { 0 } else { *self.rng.pick(&tsv) };
            let mut i = grid_in(*self.rng.pick(ecus), rx, ts, k);
            if jumps {
                ix += if self.rng.chance(1, 5) { 100_001 } else { 1 };
                i.index = Some(ix);
            }
            i
        }).collect()
    }
    /// one or two ECUs whose lifecycles get confirmed early (timestamp span > 60 s) so that messages are forwarded directly,
    /// with index jumps that make the regular refresh due, followed by tails of the same / alternating lifecycles
    fn refresh_stream(&mut self, max_n: u64) -> Vec<In> {
        let two = self.rng.chance(1, 2);
        let n = self.rng.range(5, max_n.max(6));
        let mut rx = 1000u64;
        let mut ts = [0u64, 0];
        let mut ix = 0u32;
        let mut v = Vec::new();
        for k in 0..n {
            let e = if two && self.rng.chance(1, 3) { 1 } else { 0 };
            rx += *self.rng.pick(&[0u64, 0, 1, 2, 61]);
            ts[e] += if k < 3 { 70 } else { *self.rng.pick(&[0u64, 1, 5, 70]) };
            if self.rng.chance(1, 40) { ts[e] = 0; }            // reboot
            let mut i = grid_in(["A", "B"][e], rx.max(ts[e] + 1000), ts[e], "norm");
            ix += if k >= 3 && self.rng.chance(1, 4) { 100_001 } else { 1 };
            i.index = Some(ix);
            v.push(i);
        }
        v
    }
    /// composed stream (grid ticks): every ECU runs its own script of boots - messages with rising uptimes, a per-boot transport
    /// delay and occasionally a smaller delay for a later message (the start estimate moves back: merge candidates), short and long
    /// off-times, resumes (uptime continues after a reception gap) - and the scripts are interleaved by reception time; now and
    /// then a message arrives late (non-monotonic reception times). Returns (ecu, rx, ts, kind) tuples.
    fn composed_stream(&mut self, max_len: usize) -> Vec<(String, u64, u64, String)> {
        let names = ["A", "B", "C"];
        let ne = match self.rng.below(8) { 0 => 1, 7 => 3, _ => 2 };
        let upt = [0u64, 1, 10, 50, 61, 100, 112, 113, 162];
        let mut all: Vec<(String, u64, u64, String, usize)> = Vec::new(); // + per-ECU sequence number (keeps per-ECU order on ties)
        for e in 0..ne {
            let mut boot_rx = 1000 + *self.rng.pick(&[0u64, 1, 2, 40, 64, 100]);
            let mut seq = 0usize;
            let mut last_up = 0u64;
            let nb = self.rng.range(if e == 0 { 2 } else { 1 }, 3);
            for b in 0..nb {
                let delay = *self.rng.pick(&[0u64, 0, 1, 30, 62]);
                let resume = b > 0 && self.rng.chance(1, 4);
                let k = self.rng.range(1, 4);
                let mut ups: Vec<u64> = (0..k).map(|_| *self.rng.pick(&upt)).collect();
                if self.rng.chance(3, 4) { ups.sort(); }
                let base_up = if resume { last_up } else { 0 };
                let mut max_rx = boot_rx;
                // every sixth boot starts with messages that all carry timestamp 0 at successive reception times (each is a
                // lifecycle of its own until a later message pulls them together: merges of already confirmed lifecycles)
                if self.rng.chance(1, 6) {
                    for z in 0..self.rng.range(1, 3) {
                        all.push((names[e].to_string(), boot_rx + z, 0, "norm".to_string(), seq));
                        seq += 1;
                        max_rx = max_rx.max(boot_rx + z);
                    }
                }
                for u in ups {
                    let d = if self.rng.chance(1, 3) { delay.saturating_sub(*self.rng.pick(&[1u64, 30, 40])) } else { delay };
                    let up = base_up + u;
                    let rx = boot_rx + d + u;
                    let kind = match self.rng.below(24) { 0 | 1 => "ctrl", 2 => "nots", _ => "norm" };
                    all.push((names[e].to_string(), rx, if kind == "nots" { 0 } else { up }, kind.to_string(), seq));
                    seq += 1;
                    max_rx = max_rx.max(rx);
                    last_up = last_up.max(up);
                }
                boot_rx = max_rx + *self.rng.pick(&[1u64, 2, 11, 38, 62, 70]);
            }
        }
        // interleave by reception time; per-ECU order is kept
        let mut keyed: Vec<(u64, u64, (String, u64, u64, String, usize))> = all.into_iter().map(|m| (m.1, self.rng.below(4), m)).collect();
        keyed.sort_by_key(|k| (k.0, k.1));
        let all: Vec<(String, u64, u64, String, usize)> = keyed.into_iter().map(|k| k.2).collect();
        // per-ECU order: a later message of the same ECU never overtakes (stable repair)
        let mut out: Vec<(String, u64, u64, String, usize)> = Vec::new();
        for m in all {
            out.push(m);
        }
        for e in 0..ne {
            let idxs: Vec<usize> = out.iter().enumerate().filter(|(_, m)| m.0 == names[e]).map(|(i, _)| i).collect();
            let mut ms: Vec<(String, u64, u64, String, usize)> = idxs.iter().map(|i| out[*i].clone()).collect();
            ms.sort_by_key(|m| m.4);
            for (i, m) in idxs.iter().zip(ms.into_iter()) {
                out[*i] = m;
            }
        }
        // a late arrival: one message is moved one or two places back in the stream (its reception time stays)
        if out.len() >= 3 && self.rng.chance(1, 4) {
            let i = self.rng.below(out.len() as u64 - 1) as usize;
            let j = (i + self.rng.range(1, 2) as usize).min(out.len() - 1);
            let m = out.remove(i);
            out.insert(j, m);
        }
        out.truncate(max_len);
        out.into_iter().map(|m| (m.0, m.1, m.2, m.3)).collect()
    }
    /// many ECUs: 60 .. 200 distinct ECU ids (around every plausible table capacity: 64, 65, 66, 128, 129), a few messages each,
    /// interleaved; some ECUs reboot, some get confirmed while others are still buffered
    fn many_ecus_stream(&mut self) -> Vec<In> {
        let ne = *self.rng.pick(&[60u64, 64, 65, 66, 67, 100, 128, 129, 130, 200]);
        let mut v = Vec::new();
        let mut rx = 1000u64;
        let mut up = vec![0u64; ne as usize];
        let rounds = self.rng.range(1, 3);
        for r in 0..rounds {
            for e in 0..ne {
                if self.rng.chance(1, 9) { continue; }
                rx += *self.rng.pick(&[0u64, 0, 0, 1, 2]);
                if r > 0 && self.rng.chance(1, 10) { up[e as usize] = 0; }                       // reboot
                up[e as usize] += *self.rng.pick(&[1u64, 5, 30, 70]);
                v.push(grid_in(&format!("E{:03}", e), rx, up[e as usize], if self.rng.chance(1, 15) { "ctrl" } else { "norm" }));
            }
            rx += *self.rng.pick(&[1u64, 30, 62]);
        }
        v
    }
    /// "physical" stream: ECUs with boots, delays, suspend/resume, reboots, garbage timestamps, ctrl requests, non-monotonic rx
    fn physical_stream(&mut self, max_n: u64) -> Vec<In> {
        let ne = self.rng.range(1, 4) as usize;
        let names = ["EA", "EB", "ECUC", "D"];
        let n = self.rng.range(5, max_n);
        // one stream in six is recorded by a logger without a real-time clock: reception times start near the Unix epoch, so
        // that (garbage or large) timestamps can exceed the reception time
        let origin = if self.rng.chance(1, 6) { self.rng.below(3_000_000_000) } else { epoch() };
        let mut rx_us = origin + self.rng.below(100_000_000);
        // per ecu: (boot reception base, delay_us, last ts)
        let mut st: Vec<(u64, u64)> = (0..ne).map(|_| (rx_us.saturating_sub(self.rng.below(200_000_000)), self.rng.below(5_000_000))).collect();
        let mut v = Vec::new();
        for _ in 0..n {
            rx_us += match self.rng.below(10) { 0 => 0, 1..=5 => self.rng.below(50_000), 6 | 7 => self.rng.below(2_000_000), 8 => self.rng.below(15_000_000), _ => self.rng.below(90_000_000) };
            let e = self.rng.below(ne as u64) as usize;
            match self.rng.below(40) {
                0 => { st[e] = (rx_us, self.rng.below(70_000_000)); }                               // reboot with new delay
                1 => { st[e].0 += self.rng.below(100_000_000); }                                    // suspend: uptime clock stood still
                2 => { st[e].1 = self.rng.below(70_000_000); }                                      // delay change
                _ => {}
            }
            let up = rx_us.saturating_sub(st[e].0).saturating_sub(st[e].1.min(rx_us.saturating_sub(st[e].0)));
            let mut ts_dms = (up / 100) as u32;
            let mut kind = "norm";
            match self.rng.below(30) {
                0 => ts_dms = 0,
                1 => ts_dms = self.rng.next_u64() as u32,                                           // garbage (possibly > rx)
                2 => kind = "ctrl",
                3 => kind = "nots",
                _ => {}
            }
            let rx_here = if self.rng.chance(1, 25) { rx_us.saturating_sub(self.rng.below(3_000_000)) } else { rx_us }; // non-monotonic
            v.push(In { ecu: names[e].to_string(), rx_us: rx_here, ts_dms: if kind == "nots" { 0 } else { ts_dms }, kind: kind.to_string(), boot: 0, index: None });
        }
        v
    }
    /// clean-boot trace with ground truth (C08): returns (inputs, boots[{ecu,bt,delay,maxts}])
    fn clean_stream(&mut self, max_boots: u64, max_per_boot: u64, ne: usize, fine: bool, zero: bool) -> (Vec<In>, Vec<Value>) {
        let names = ["A", "B", "C"];
        // fine (1 ms ticks): boots of 100 s .. 2 h followed by off-times of 1 .. 20 ms (and a few longer ones), delays up to 65 s
        let delays: &[u64] = if fine { &[0, 0, 1, 500, 30_000, 65_000] } else { &[0, 0, 1, 5, 30, 65] };
        let offs: &[u64] = if fine { &[1, 1, 2, 5, 20, 1_000, 20_000] } else { &[1, 2, 15, 100, 700] };
        let tsv: &[u64] = if fine { &[0, 1, 500, 10_000, 100_000, 300_001, 2_000_000, 7_200_000] } else { &[0, 1, 2, 12, 40, 100, 250] };
        let mut per_ecu: Vec<Vec<In>> = Vec::new();
        let mut boots = Vec::new();
        for e in 0..ne {
            let mut seq = Vec::new();
            // zero (with --epoch0: recordings of a logger without a real-time clock): the first boot of an ECU may start at the
            // very beginning of the epoch with no delay - boot time + delay = 0, a timestamp then EQUALS the reception time
            let mut bt = if zero && self.rng.chance(2, 3) { 0 } else { 1000 + self.rng.below(50) };
            let mut first_boot = true;
            let nb = self.rng.range(1, max_boots);
            let mut max_rx_prev = 0;
            for _ in 0..nb {
                let delay = if zero && first_boot && bt == 0 { 0 } else { *self.rng.pick(delays) };
                first_boot = false;
                let k = self.rng.range(1, max_per_boot);
                let mut tss: Vec<u64> = (0..k).map(|_| *self.rng.pick(tsv)).collect();
                if self.rng.chance(2, 3) { tss.sort(); }
                // reception-time separation from the previous boot of this ECU
                let min_ts = *tss.iter().min().unwrap();
                if bt + delay + min_ts <= max_rx_prev { bt = max_rx_prev + 1 - min_ts.min(max_rx_prev) ; if bt + delay + min_ts <= max_rx_prev { bt = max_rx_prev + 1; } }
                let maxts = *tss.iter().max().unwrap();
                boots.push(json!({"ecu":names[e],"bt":bt,"delay":delay,"maxts":maxts}));
                let bi = boots.len() as u32;
                for ts in &tss {
                    let mut i = grid_in(names[e], bt + delay + ts, *ts, "norm");
                    i.boot = bi;
                    seq.push(i);
                }
                max_rx_prev = max_rx_prev.max(bt + delay + maxts);
                bt = bt + maxts + *self.rng.pick(offs);
            }
            per_ecu.push(seq);
        }
        // arbitrary interleaving of the ECUs keeping each ECU's own order
        let mut idx = vec![0usize; ne];
        let mut out = Vec::new();
        // a third of the clean traces carry index fields that jump beyond the regular-refresh distance
        let jumps = self.rng.chance(1, 3);
        let mut ix = 0u32;
        loop {
            let live: Vec<usize> = (0..ne).filter(|e| idx[*e] < per_ecu[*e].len()).collect();
            if live.is_empty() { break; }
            let e = *self.rng.pick(&live);
            let mut i = per_ecu[e][idx[e]].clone();
            if jumps {
                ix += if self.rng.chance(1, 4) { 100_001 } else { 1 };
                i.index = Some(ix);
            }
            out.push(i);
            idx[e] += 1;
        }
        (out, boots)
    }
}

fn msgs_of(inputs: &[In], from: usize) -> Vec<DltMessage> {
    inputs.iter().enumerate().map(|(i, x)| build((from + i) as u32, x)).collect()
}

fn main() {
    quiet_panics();
    let a = Args::from_env();
    if let Some(tu) = a.get("--tick-us") {
        TICK.store(tu.parse().unwrap(), std::sync::atomic::Ordering::Relaxed);
    }
    if a.has("--epoch0") {
        EPOCH.store(0, std::sync::atomic::Ordering::Relaxed);
    }
    let mut t = Trace::create(&a.str("--out", "trace.ndjson"));
    let mut case = a.num("--first-case", 0);
    let mut rng = Rng::new(a.num("--seed", 1));
    let (mut replayed, mut fast, mut slow, mut drift, mut panics) = (0u64, 0u64, 0u64, 0u64, 0u64);
    let sample_every = a.num("--sample-every", 200);
    let max_slow = a.num("--max-slow", 4000);
    let mut skipped_slow = 0u64;
    let mut drift_samples: Vec<Value> = Vec::new();

    // ---- scenario composer: scripts for spec/LcScripted.tla (one ndjson line per stream), nothing is executed
    if let Some(nscripts) = a.get("--gen-scripts") {
        let mut g = Gen { rng: Rng::new(a.num("--seed", 1) ^ 0x5c21_97ed) };
        let n: u64 = nscripts.parse().unwrap();
        for _ in 0..n {
            let st = g.composed_stream(a.num("--script-len", 12) as usize);
            let msgs: Vec<Value> = st.iter().enumerate().map(|(i, m)| json!({"ecu":m.0,"rx":m.1,"ts":m.2,"kind":m.3,"ix":i})).collect();
            t.ev(json!({"msgs":msgs}));
        }
        println!("{}", json!({"scripts":n}));
        return;
    }
    // ---- TLC behaviours with predictions
    if let Some(f) = a.get("--scenarios") {
        use std::io::BufRead;
        let rd = std::io::BufReader::new(std::fs::File::open(f).expect("scenarios"));
        for line in rd.lines() {
            let line = line.unwrap();
            if line.trim().is_empty() { continue; }
            let scn: Value = serde_json::from_str(&line).unwrap();
            let inputs: Vec<In> = scn["inputs"].as_array().unwrap().iter().map(|m| {
                let mut i = grid_in(m["ecu"].as_str().unwrap(), m["rx"].as_u64().unwrap(), m["ts"].as_u64().unwrap(), m["kind"].as_str().unwrap());
                i.boot = m.get("boot").and_then(|b| b.as_u64()).unwrap_or(0) as u32;
                i.index = m.get("ix").and_then(|b| b.as_u64()).map(|x| x as u32);
                i
            }).collect();
            let clean = scn.get("boots").is_some();
            let obs = run_detector(&[msgs_of(&inputs, 0)], false);
            replayed += 1;
            if obs.panic.is_some() { panics += 1; }
            // scripted scenarios carry one prediction per iteration order of the confirmation pass ("alts"): the observation has to
            // equal one of them; the contract verdict must be TRUE on all of them for the fast path
            let alts: Vec<&Value> = match scn.get("alts").and_then(|x| x.as_array()) { Some(v) => v.iter().collect(), None => vec![&scn] };
            let same = alts.iter().any(|p| matches_prediction(p, &obs));
            let contract_ok = alts.iter().all(|p| p["c05"].as_bool().unwrap() && p["c06"].as_bool().unwrap() && p["c07"].as_bool().unwrap() && !p["panic"].as_bool().unwrap())
                && (!clean || scn["exact"].as_bool().unwrap());
            if !same {
                drift += 1;
                if drift_samples.len() < 3 { drift_samples.push(json!({"scenario":scn,"observed":format!("{:?}", obs)})); }
            }
            if same && contract_ok && (replayed % sample_every != 0) {
                fast += 1;
            } else if slow >= max_slow {
                // a tree that deviates massively: enough full traces have been recorded for TLC to judge, the rest is only counted
                skipped_slow += 1;
            } else {
                slow += 1;
                let hdr = if clean { json!({"kind":"clean","src":"tlc-clean","prepop":false,"boots":scn["boots"]}) } else { json!({"kind":"stream","src":"tlc","prepop":false,"boots":[]}) };
                write_trace(&mut t, case, hdr, &inputs, &obs);
                case += 1;
            }
            // chained run: a second detector run starts from the table the first one left (pre-populated table) - requested for
            // scripts whose first run merges an already published lifecycle (the table operations of that path decide whether the
            // second run can even start); always a full trace
            if scn.get("chain").and_then(|x| x.as_bool()).unwrap_or(false) && !inputs.is_empty() {
                let last = inputs.last().unwrap().clone();
                let mut all = inputs.clone();
                let mut ecus: Vec<String> = inputs.iter().map(|i| i.ecu.clone()).collect();
                ecus.sort();
                ecus.dedup();
                for (k, e) in ecus.iter().cycle().take(3).enumerate() {
                    let mut x = last.clone();
                    x.ecu = e.clone();
                    x.kind = "norm".to_string();
                    x.rx_us = last.rx_us + (k as u64 + 1) * tick_us();
                    x.ts_dms = last.ts_dms.saturating_add((k as u32 + 1) * 10_000);
                    x.index = last.index.map(|v| v + k as u32 + 1);
                    all.push(x);
                }
                let cut = inputs.len();
                let obs2 = run_detector(&[msgs_of(&all[..cut], 0), msgs_of(&all[cut..], cut)], false);
                if obs2.panic.is_some() { panics += 1; }
                write_trace(&mut t, case, json!({"kind":"stream","src":"tlc-chained","prepop":true,"boots":[]}), &all, &obs2);
                case += 1;
            }
        }
    }
    // ---- explicit regression inputs of the defects repaired in /repo (fix: commits)
    if a.has("--regressions") {
        let regs: Vec<(&str, Vec<In>)> = vec![
            ("assert-5", vec![grid_in("A",1000,0,"norm"),grid_in("A",1001,0,"norm"),grid_in("A",1002,0,"norm"),grid_in("A",1013,70,"norm"),grid_in("A",1013,70,"norm")]),
            ("phantom-5", vec![grid_in("B",1011,70,"norm"),grid_in("A",1022,1,"norm"),grid_in("B",1023,70,"norm"),grid_in("B",1024,1,"ctrl"),grid_in("B",1024,20,"norm")]),
            ("listing-6", vec![grid_in("A",1000,10,"norm"),grid_in("A",1100,20,"norm"),grid_in("A",1101,116,"norm"),grid_in("A",1102,70,"norm"),grid_in("A",1103,118,"norm"),grid_in("B",1104,117,"norm")]),
            ("cresp1", vec![grid_in("A",1000,1,"norm"),grid_in("A",1001,2,"cresp1"),grid_in("A",1002,3,"cresp1"),grid_in("A",1003,4,"norm")]),
            ("crsw", vec![grid_in("A",1000,1,"norm"),grid_in("A",1001,2,"crsw0"),grid_in("A",1002,3,"crsw1"),grid_in("A",1003,4,"crsw4"),grid_in("A",1004,5,"crsw5"),grid_in("A",1005,6,"crsw12"),grid_in("A",1006,7,"norm")]),
        ];
        for (name, inputs) in regs {
            let obs = run_detector(&[msgs_of(&inputs, 0)], true);
            write_trace(&mut t, case, json!({"kind":"stream","src":name,"prepop":false,"boots":[]}), &inputs, &obs);
            case += 1;
        }
    }
    // ---- random streams
    let mut g = Gen { rng: Rng::new(rng.next_u64()) };
    let n_random = a.num("--random", 0);
    let max_n = a.num("--max-len", 40);
    for i in 0..n_random {
        let style = i % 7;
        let crsw = ["norm", "ctrl", "nots", "crsw0", "crsw1", "crsw4", "crsw5", "crsw12", "cresp1"];
        let inputs = match style {
            0 => g.grid_stream(max_n.min(14), &["A"], &["norm", "ctrl", "nots"]),
            1 => g.grid_stream(max_n.min(14), &["A", "B"], &["norm", "ctrl", "nots"]),
            2 => g.grid_stream(max_n.min(14), &["A", "B"], &crsw),
            3 => g.grid_stream(max_n, &["A", "B", "C"], &["norm", "ctrl"]),
            4 => g.refresh_stream(max_n.min(30)),
            5 => g.many_ecus_stream(),
            _ => g.physical_stream(max_n * 4),
        };
        let prepop = g.rng.chance(1, 6) && inputs.len() >= 4;
        let obs = if prepop {
            let cut = g.rng.range(1, inputs.len() as u64 - 1) as usize;
            run_detector(&[msgs_of(&inputs[..cut], 0), msgs_of(&inputs[cut..], cut)], i % 2 == 0)
        } else {
            run_detector(&[msgs_of(&inputs, 0)], i % 2 == 0)
        };
        if obs.panic.is_some() { panics += 1; }
        write_trace(&mut t, case, json!({"kind":"stream","src":"random","prepop":prepop,"boots":[]}), &inputs, &obs);
        case += 1;
    }
    // ---- many lifecycles (listing of >= 21 entries)
    for _ in 0..a.num("--big-tables", 0) {
        let mut inputs = Vec::new();
        let mut rx = 1000u64;
        let ecus = ["A", "B", "C", "D"];
        let mut up = [0u64; 4];
        for _ in 0..g.rng.range(60, 160) {
            let e = g.rng.below(4) as usize;
            rx += *g.rng.pick(&[0u64, 1, 3, 11, 20]);
            match g.rng.below(6) {
                0 => up[e] = 0,                              // reboot
                1 => { rx += 15; }                            // reception gap -> resume candidates
                _ => {}
            }
            up[e] += *g.rng.pick(&[1u64, 2, 5, 12]);
            inputs.push(grid_in(ecus[e], rx, up[e], "norm"));
        }
        let obs = run_detector(&[msgs_of(&inputs, 0)], false);
        if obs.panic.is_some() { panics += 1; }
        write_trace(&mut t, case, json!({"kind":"stream","src":"bigtable","prepop":false,"boots":[]}), &inputs, &obs);
        case += 1;
    }
    // ---- huge queues: more than 2^20 / 10^6 messages wait in the detector's queue while a lifecycle is unconfirmed (scale classes the
    //      bounded models abstract away); recorded as ONE summary event per case (counts only - TLC judges them)
    for k in 0..a.num("--huge", 0) {
        let n: u64 = [1_000_050u64, 1_048_600, 1_300_000][(k % 3) as usize];
        let mut inputs = vec![grid_in("B", 1000, 1, "norm"), grid_in("B", 1000, 2, "norm")];
        // even k: the huge queue belongs to a SECOND, still unconfirmed lifecycle of ECU A (its messages arrive with 2 ticks more
        // buffering delay than A's first message, so their start estimate lies behind the end of A's first lifecycle), and the message
        // behind the queue arrives with the small delay again: the queued lifecycle is merged into its predecessor while > 10^6 of its
        // messages wait.  odd k: one unconfirmed lifecycle, no merge.
        let late_merge = k % 2 == 0;
        if late_merge {
            inputs.push(grid_in("A", 1000, 1, "norm"));
        }
        let d = if late_merge { 2 } else { 0 };
        for i in 0..n {
            // all within 10 ticks of reception time and 10 ticks of uptime: nothing can be confirmed meanwhile
            inputs.push(grid_in("A", 1000 + d + i * 10 / n, 1 + i * 10 / n, if i % 1000 == 999 { "ctrl" } else { "norm" }));
        }
        if late_merge {
            inputs.push(grid_in("A", 1013, 14, "norm"));
        }
        for j in 0..6u64 {
            inputs.push(grid_in(if j % 2 == 0 { "A" } else { "B" }, 1075 + j, 80 + j, "norm"));
        }
        let obs = run_detector(&[msgs_of(&inputs, 0)], false);
        if obs.panic.is_some() { panics += 1; }
        let mut per: BTreeMap<(u32, String), u64> = BTreeMap::new();
        let base = id_base(&obs);
        let (mut first_mis, mut not_intact, mut unassigned, mut invisible) = (-1i64, 0u64, 0u64, 0u64);
        for (pos, d) in obs.delivered.iter().enumerate() {
            if d.0 != pos as i64 && first_mis < 0 { first_mis = pos as i64; }
            if !d.6 { not_intact += 1; }
            if d.2 == 0 { unassigned += 1; }
            if !(d.3 && d.4 && d.5) { invisible += 1; }
            *per.entry((rid(d.2, base), d.1.clone())).or_insert(0) += 1;
        }
        let mut per_in: BTreeMap<String, u64> = BTreeMap::new();
        for i in &inputs { *per_in.entry(i.ecu.clone()).or_insert(0) += 1; }
        let summary = json!({"ev":"big_out","n_out":obs.delivered.len(),"first_misordered":first_mis,"not_intact":not_intact,"unassigned":unassigned,
            "invisible":invisible,"per":per.iter().map(|((lc, ecu), n)| json!({"lc":lc,"ecu":ecu,"n":n})).collect::<Vec<Value>>()});
        let hdr = json!({"kind":"big","src":"huge-queue","prepop":false,"boots":[],"n":inputs.len(),
            "per_in":per_in.iter().map(|(e, n)| json!({"ecu":e,"n":n})).collect::<Vec<Value>>()});
        write_trace_opt(&mut t, case, hdr, &inputs, &obs, Some(summary));
        case += 1;
    }
    // ---- clean-boot traces (C08)
    for i in 0..a.num("--clean", 0) {
        let ne = 1 + (i % 3) as usize;
        let (inputs, boots) = g.clean_stream(a.num("--max-boots", 4), a.num("--max-per-boot", 5), ne, a.has("--clean-fine"), a.has("--clean-zero"));
        let obs = run_detector(&[msgs_of(&inputs, 0)], false);
        if obs.panic.is_some() { panics += 1; }
        write_trace(&mut t, case, json!({"kind":"clean","src":"clean","prepop":false,"boots":boots}), &inputs, &obs);
        case += 1;
    }
    // ---- repository example files
    if let Some(dir) = a.get("--files") {
        let mut names: Vec<String> = std::fs::read_dir(dir).unwrap().filter_map(|e| e.ok()).map(|e| e.path().to_string_lossy().to_string())
            .filter(|p| p.ends_with(".dlt") && p.contains("lc_ex")).collect();
        names.sort();
        for f in names {
            let data = std::fs::read(&f).unwrap();
            let it = adlt::utils::DltMessageIterator::new(0, std::io::Cursor::new(data));
            let msgs: Vec<DltMessage> = it.take(a.num("--file-max", 3000) as usize).collect();
            let inputs: Vec<In> = msgs.iter().map(|m| In { ecu: ecu_str(&m.ecu), rx_us: m.reception_time_us, ts_dms: m.timestamp_dms, kind: "file".to_string(), boot: 0, index: Some(m.index) }).collect();
            let obs = run_detector(&[msgs], true);
            if obs.panic.is_some() { panics += 1; }
            write_trace(&mut t, case, json!({"kind":"stream","src":f.rsplit('/').next().unwrap(),"prepop":false,"boots":[]}), &inputs, &obs);
            case += 1;
        }
    }
    t.flush();
    let mut stats: BTreeMap<&str, Value> = BTreeMap::new();
    stats.insert("cases_traced", json!(case));
    stats.insert("slow_path_not_recorded", json!(skipped_slow));
    stats.insert("lines", json!(t.lines));
    stats.insert("replayed", json!(replayed));
    stats.insert("fast_path", json!(fast));
    stats.insert("slow_path", json!(slow));
    stats.insert("drift", json!(drift));
    stats.insert("panics", json!(panics));
    stats.insert("drift_samples", json!(drift_samples));
    println!("{}", serde_json::to_string(&stats).unwrap());
}
