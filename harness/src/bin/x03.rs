//! X03 driver: the export plugin (`adlt::plugins::export::ExportPlugin`) behind a REAL lifecycle stage.
//!
//! Pipeline per case, assembled as convert.rs / remote.rs do it:
//!   producer -> [channel] -> parse_lifecycles_buffered_from_stream -> [sync_channel] -> plugins_process_msgs([.., Export]) -> consumer
//! with the shared lifecycle table (evmap, adlt's hasher), `set_lifecycle_read_handle` before the first message and
//! `sync_all` after the last one (remote.rs 2185-2199).
//!
//! Two schedules:
//!   lock  the lifecycle stage hands over one message at a time and waits until the plugin stage has finished it; the plugin is
//!         wrapped by a delegating harness plugin that reads the lifecycle table entry of the message (what the plugin is about
//!         to see), calls the real plugin and records its return value and whether it changed the message;
//!   free  both stages run freely (channel capacity and pacing vary); a harness "tap" plugin in front of the export plugin only
//!         records what arrives. The table entry the plugin sees is not observable here.
//!
//! The driver records what it saw (ndjson events, decided by spec/ExportPluginTrace.tla); the only comparisons it makes are data
//! equality (message fields before/after, re-read message vs original, observation vs the value TLC predicted for a scenario).
use adlt::dlt::{DltExtendedHeader, DltMessage};
use adlt::lifecycle::{parse_lifecycles_buffered_from_stream, LifecycleId, LifecycleItem};
use adlt::plugins::export::ExportPlugin;
use adlt::plugins::plugin::{Plugin, PluginState};
use adlt::plugins::plugins_process_msgs;
use adlt::utils::sync_sender_send_delay_if_full;
use std::collections::BTreeMap;
use std::hash::{BuildHasher, Hash};
use std::sync::mpsc::{channel, sync_channel};
use std::sync::{Arc, Mutex, RwLock};
use vh::*;

// the hasher type of adlt's lifecycle map (nohash) without naming the nohash crate
trait HasherOf {
    type S;
}
impl<K: Eq + Hash, V, M, S: BuildHasher> HasherOf for evmap::ReadHandle<K, V, M, S> {
    type S = S;
}
type LcS = <adlt::lifecycle::LcsRType as HasherOf>::S;
type LcsW = evmap::WriteHandle<LifecycleId, LifecycleItem, (), LcS>;
type LcsR = adlt::lifecycle::LcsRType;

/// times in traces are microseconds relative to REL0 (fits TLC's 32-bit integers for streams of < 1400 s with timestamps < 500 s)
const REL0: u64 = BASE_US - 600_000_000;
const GTICK_US: u64 = 100_000; // tick of the TLC scenarios: 100 ms

fn rel(us: u64) -> i64 {
    let v = us as i128 - REL0 as i128;
    v.clamp(-2_000_000_000, 2_000_000_000) as i64
}

#[derive(Clone, Debug)]
struct MsgIn {
    ecu: String,
    apid: String, // "" = message without extended header
    ctid: String,
    rx_us: u64,
    ts_dms: u32,
    kind: u8, // 0 normal, 1 no timestamp flag, 2 control request, 3 big-endian payload flag
    plen: usize,
}

#[derive(Clone, Debug)]
struct FilterCfg {
    kind: String, // pos | neg | mrk | evt
    not: bool,
    ecu: String,
    apid: String,
    ctid: String,
    en: bool,
}

#[derive(Clone, Debug)]
struct Lci {
    ecu: String,
    start: u64,
    end: u64,
    resume: Option<u64>,
}

#[derive(Clone, Debug, Default)]
struct Cfg {
    enabled: bool,
    filters: Vec<FilterCfg>,
    lcis: Option<Vec<Lci>>, // None: key absent
    from_ms: Option<u64>,
    to_ms: Option<u64>,
    infos: Vec<String>,
    bigint_strings: bool, // numbers as "123n" strings
}

fn build(pos: u32, i: &MsgIn, rng: &mut Rng) -> DltMessage {
    let mut pl = pos.to_le_bytes().to_vec();
    pl.extend(rng.bytes(i.plen));
    let mut m = mk_msg(pos, &i.ecu, i.rx_us, i.ts_dms, pl);
    m.standard_header.mcnt = rng.next_u64() as u8;
    if i.apid.is_empty() {
        m.extended_header = None;
        m.standard_header.htyp &= !0x01;
    } else {
        m.extended_header = Some(DltExtendedHeader { verb_mstp_mtin: 0x41, noar: 1, apid: char4(&i.apid), ctid: char4(&i.ctid) });
    }
    match i.kind {
        1 => {
            m.standard_header.htyp &= !0x10;
            m.timestamp_dms = 0;
        }
        2 => {
            if let Some(e) = m.extended_header.as_mut() {
                e.verb_mstp_mtin = (3 << 1) | (1 << 4);
            }
        }
        3 => m.standard_header.htyp |= 0x02,
        _ => {}
    }
    m
}

fn ecu_str(e: &adlt::dlt::DltChar4) -> String {
    String::from_utf8_lossy(e.as_buf()).trim_end_matches('\0').to_string()
}

fn cfg_json(cfg: &Cfg, file: &str) -> Value {
    let num = |v: u64| -> Value {
        if cfg.bigint_strings {
            json!(format!("{}n", v))
        } else {
            json!(v)
        }
    };
    let mut o = serde_json::Map::new();
    o.insert("name".into(), json!("Export"));
    o.insert("enabled".into(), json!(cfg.enabled));
    o.insert("exportFileName".into(), json!(file));
    let fs: Vec<Value> = cfg.filters.iter().map(|f| {
        let mut fo = serde_json::Map::new();
        fo.insert("type".into(), json!(match f.kind.as_str() { "pos" => 0, "neg" => 1, "mrk" => 2, _ => 3 }));
        if f.not {
            fo.insert("not".into(), json!(true));
        }
        if !f.en {
            fo.insert("enabled".into(), json!(false));
        }
        if !f.ecu.is_empty() {
            fo.insert("ecu".into(), json!(f.ecu));
        }
        if !f.apid.is_empty() {
            fo.insert("apid".into(), json!(f.apid));
        }
        if !f.ctid.is_empty() {
            fo.insert("ctid".into(), json!(f.ctid));
        }
        Value::Object(fo)
    }).collect();
    o.insert("filters".into(), json!(fs));
    if let Some(lcis) = &cfg.lcis {
        let ls: Vec<Value> = lcis.iter().map(|l| {
            let mut lo = serde_json::Map::new();
            lo.insert("ecu".into(), json!(l.ecu));
            lo.insert("startTime".into(), num(l.start));
            lo.insert("endTime".into(), num(l.end));
            if let Some(r) = l.resume {
                lo.insert("resumeTime".into(), num(r));
            }
            Value::Object(lo)
        }).collect();
        o.insert("lifecyclesToKeep".into(), json!(ls));
    }
    if let Some(v) = cfg.from_ms {
        o.insert("recordedTimeFromMs".into(), num(v));
    }
    if let Some(v) = cfg.to_ms {
        o.insert("recordedTimeToMs".into(), num(v));
    }
    if !cfg.infos.is_empty() {
        o.insert("infoTexts".into(), json!(cfg.infos));
    }
    Value::Object(o)
}

fn cfg_hdr(cfg: &Cfg) -> Value {
    json!({
        "enabled": cfg.enabled,
        "filters": cfg.filters.iter().map(|f| json!({"kind":f.kind,"neg":f.not,"ecu":f.ecu,"apid":f.apid,"ctid":f.ctid,"en":f.en})).collect::<Vec<_>>(),
        "lcis": cfg.lcis.as_ref().map(|v| v.iter().map(|l| json!({"ecu":l.ecu,"start":rel(l.start),"end":rel(l.end),
                    "hasres":l.resume.is_some(),"resume":l.resume.map(rel).unwrap_or(0)})).collect::<Vec<_>>()).unwrap_or_default(),
        "hasfrom": cfg.from_ms.is_some(), "from": cfg.from_ms.map(|v| rel(v * 1000)).unwrap_or(0),
        "hasto": cfg.to_ms.is_some(), "to": cfg.to_ms.map(|v| rel(v * 1000)).unwrap_or(0),
        "ninfo": cfg.infos.iter().filter(|s| !s.is_empty()).count(),
    })
}

type Log = Arc<Mutex<Vec<Value>>>;

fn pos_of(m: &DltMessage) -> i64 {
    if m.payload.len() >= 4 { u32::from_le_bytes(m.payload[0..4].try_into().unwrap()) as i64 } else { -1 }
}

fn snapshot(lcs_r: &LcsR, m: &DltMessage) -> Value {
    match lcs_r.get_one(&m.lifecycle) {
        Some(lc) => json!({"ok":true,"ecu_ok":lc.ecu == m.ecu,"start":rel(lc.start_time),"end":rel(lc.end_time()),"isres":lc.is_resume(),
                           "rstart":rel(lc.resume_start_time()),"rtime":rel(lc.resume_time()),"nr":lc.nr_msgs}),
        None => json!({"ok":false,"ecu_ok":false,"start":0,"end":0,"isres":false,"rstart":0,"rtime":0,"nr":0}),
    }
}

fn proc_ev(m: &DltMessage, snap: Value, ret: bool, intact: bool) -> Value {
    json!({"ev":"proc","i":pos_of(m),"ecu":ecu_str(&m.ecu),
           "apid":m.apid().map(ecu_str).unwrap_or_else(|| "-".to_string()),"ctid":m.ctid().map(ecu_str).unwrap_or_else(|| "-".to_string()),
           "rx":rel(m.reception_time_us),"lcraw":m.lifecycle,"snap":snap,"ret":ret,"intact":intact})
}

/// lock-step wrapper: delegates every call to the real plugin, records what goes in and what comes out
struct Wrapper {
    inner: Option<Box<dyn Plugin + Send>>,
    lcs_r: Option<LcsR>,
    log: Log,
    ack: std::sync::mpsc::Sender<()>,
    dead: bool,
}
impl Plugin for Wrapper {
    fn name(&self) -> &str {
        "verif-wrapper"
    }
    fn enabled(&self) -> bool {
        true
    }
    fn state(&self) -> Arc<RwLock<PluginState>> {
        self.inner.as_ref().unwrap().state()
    }
    fn set_lifecycle_read_handle(&mut self, lcs_r: &LcsR) {
        self.lcs_r = Some(lcs_r.clone());
        self.inner.as_mut().unwrap().set_lifecycle_read_handle(lcs_r);
    }
    fn sync_all(&mut self) {
        if !self.dead {
            let inner = self.inner.as_mut().unwrap();
            if let Err(msg) = catch(std::panic::AssertUnwindSafe(|| inner.sync_all())) {
                self.log.lock().unwrap().push(json!({"ev":"panic","where":"sync_all","msg":msg}));
                self.dead = true;
            }
        }
    }
    fn process_msg(&mut self, msg: &mut DltMessage) -> bool {
        let snap = snapshot(self.lcs_r.as_ref().unwrap(), msg);
        let before = msg.clone();
        let mut ret = true;
        if !self.dead {
            let inner = self.inner.as_mut().unwrap();
            match catch(std::panic::AssertUnwindSafe(|| inner.process_msg(msg))) {
                Ok(r) => {
                    ret = r;
                    self.log.lock().unwrap().push(proc_ev(&before, snap, r, before == *msg));
                }
                Err(p) => {
                    self.log.lock().unwrap().push(proc_ev(&before, snap, true, before == *msg));
                    self.log.lock().unwrap().push(json!({"ev":"panic","where":"process_msg","msg":p.chars().take(200).collect::<String>()}));
                    self.dead = true;
                }
            }
        }
        let _ = self.ack.send(());
        ret
    }
}

/// free-running mode: records what arrives at the export plugin (which follows it in the chain)
struct Tap {
    log: Log,
    state: Arc<RwLock<PluginState>>,
}
impl Plugin for Tap {
    fn name(&self) -> &str {
        "verif-tap"
    }
    fn enabled(&self) -> bool {
        true
    }
    fn state(&self) -> Arc<RwLock<PluginState>> {
        self.state.clone()
    }
    fn set_lifecycle_read_handle(&mut self, _lcs_r: &LcsR) {}
    fn sync_all(&mut self) {}
    fn process_msg(&mut self, msg: &mut DltMessage) -> bool {
        let snap = json!({"ok":false,"ecu_ok":false,"start":0,"end":0,"isres":false,"rstart":0,"rtime":0,"nr":0});
        self.log.lock().unwrap().push(proc_ev(msg, snap, true, true));
        true
    }
}

#[derive(Clone, Debug)]
struct Sched {
    lock: bool,
    cap: usize,
    consumer_stall_every: usize, // free mode: the consumer of the plugin stage sleeps 1 ms every n messages (0 = never)
    producer_stall_every: usize,
}

#[derive(Default, Debug, Clone)]
struct LcFinal {
    id: u32,
    ecu: String,
    start: u64,
    end: u64,
    isres: bool,
    rstart: u64,
    rtime: u64,
    nr: u32,
}

struct RunOut {
    events: Vec<Value>,      // proc / out / panic events in program order of the plugin thread, then wr..., end
    table: Vec<LcFinal>,     // final lifecycle table
    lc_of: BTreeMap<i64, u32>, // position -> raw lifecycle id as seen by the plugin stage
    constructed: bool,
}

/// field equality of a re-read message with the original (the fields C02 lists)
fn same_fields(o: &DltMessage, r: &DltMessage) -> bool {
    o.ecu == r.ecu && o.reception_time_us == r.reception_time_us && o.timestamp_dms == r.timestamp_dms
        && o.standard_header.has_timestamp() == r.standard_header.has_timestamp() && o.standard_header.mcnt == r.standard_header.mcnt
        && o.is_big_endian() == r.is_big_endian() && o.extended_header == r.extended_header && o.payload == r.payload
}

/// run the lifecycle stage alone (a "previous run" whose final lifecycle table a user would pick lifecycles from)
fn first_pass(msgs: &[DltMessage]) -> (Vec<LcFinal>, BTreeMap<i64, u32>) {
    let (lcs_r, lcs_w): (LcsR, LcsW) = evmap::Options::default().with_hasher(LcS::default()).construct::<LifecycleId, LifecycleItem>();
    let (tx, rx) = channel();
    for m in msgs {
        tx.send(m.clone()).unwrap();
    }
    drop(tx);
    let assigned = std::cell::RefCell::new(BTreeMap::new());
    let r = catch(std::panic::AssertUnwindSafe(|| {
        parse_lifecycles_buffered_from_stream(lcs_w, rx, &|m: DltMessage| {
            assigned.borrow_mut().insert(pos_of(&m), m.lifecycle);
            Ok(())
        })
    }));
    let mut table = Vec::new();
    if let Ok(_w) = &r {
        if let Some(rr) = lcs_r.read() {
            for (id, b) in &rr {
                if let Some(lc) = b.get_one() {
                    table.push(LcFinal { id: *id, ecu: ecu_str(&lc.ecu), start: lc.start_time, end: lc.end_time(), isres: lc.is_resume(),
                                         rstart: lc.resume_start_time(), rtime: lc.resume_time(), nr: lc.nr_msgs });
                }
            }
        }
    }
    table.sort_by_key(|l| l.id);
    (table, assigned.into_inner())
}

fn run_case(msgs: &[DltMessage], cfg: &Cfg, sched: &Sched, tmp: &str, case: u64) -> RunOut {
    let file = format!("{}/x03_{}_{}.dlt", tmp, std::process::id(), case);
    let _ = std::fs::remove_file(&file);
    let cj = cfg_json(cfg, &file);
    let log: Log = Arc::new(Mutex::new(Vec::new()));
    let plugin = match ExportPlugin::from_json(cj.as_object().unwrap()) {
        Ok(p) => p,
        Err(e) => {
            return RunOut { events: vec![json!({"ev":"cfgerr","msg":format!("{}", e)})], table: vec![], lc_of: BTreeMap::new(), constructed: false };
        }
    };
    let (lcs_r, lcs_w): (LcsR, LcsW) = evmap::Options::default().with_hasher(LcS::default()).construct::<LifecycleId, LifecycleItem>();
    let (tx_for_parse_thread, rx_from_parse_thread) = sync_channel::<DltMessage>(msgs.len().max(1)); // (a 1M-slot channel as in convert.rs costs 0.1 s per case to allocate)
    let (tx_for_lc_thread, rx_from_lc_thread) = sync_channel::<DltMessage>(sched.cap);
    let (ack_tx, ack_rx) = channel::<()>();
    let lock = sched.lock;
    let lc_thread = std::thread::spawn(move || {
        catch(std::panic::AssertUnwindSafe(|| {
            parse_lifecycles_buffered_from_stream(lcs_w, rx_from_parse_thread, &|m| {
                let r = sync_sender_send_delay_if_full(m, &tx_for_lc_thread);
                if lock && r.is_ok() {
                    let _ = ack_rx.recv(); // the plugin stage has finished this message
                }
                r
            })
        }))
    });
    let mut plugins_active: Vec<Box<dyn Plugin + Send>> = if lock {
        vec![Box::new(Wrapper { inner: Some(Box::new(plugin)), lcs_r: None, log: log.clone(), ack: ack_tx, dead: false })]
    } else {
        drop(ack_tx);
        vec![Box::new(Tap { log: log.clone(), state: Arc::new(RwLock::new(PluginState::default())) }), Box::new(plugin)]
    };
    let lcs_r_for_plugins = lcs_r.clone();
    let originals: Arc<Vec<DltMessage>> = Arc::new(msgs.to_vec());
    let orig2 = originals.clone();
    let log2 = log.clone();
    let stall = sched.consumer_stall_every;
    let plugin_thread = std::thread::spawn(move || {
        plugins_active.iter_mut().for_each(|p| p.set_lifecycle_read_handle(&lcs_r_for_plugins));
        let nout = std::cell::Cell::new(0usize);
        let r = catch(std::panic::AssertUnwindSafe(|| {
            plugins_process_msgs(
                rx_from_lc_thread,
                &|m: DltMessage| {
                    let p = pos_of(&m);
                    let intact = orig2.get(p.max(0) as usize).map(|o| {
                        let mut o2 = o.clone();
                        o2.lifecycle = m.lifecycle;
                        p >= 0 && o2 == m
                    }).unwrap_or(false);
                    log2.lock().unwrap().push(json!({"ev":"out","i":p,"intact":intact,"lcraw":m.lifecycle}));
                    nout.set(nout.get() + 1);
                    if stall > 0 && nout.get() % stall == 0 {
                        std::thread::sleep(std::time::Duration::from_millis(1));
                    }
                    Ok(())
                },
                plugins_active,
            )
        }));
        match r {
            Ok(Ok(mut ps)) => {
                // remote.rs: sync_all once all messages have been processed
                let r2 = catch(std::panic::AssertUnwindSafe(|| ps.iter_mut().for_each(|p| p.sync_all())));
                if let Err(msg) = r2 {
                    log2.lock().unwrap().push(json!({"ev":"panic","where":"sync_all","msg":msg.chars().take(200).collect::<String>()}));
                }
                let st = ps.last().unwrap().state();
                let v = st.read().map(|s| s.value.clone()).unwrap_or(Value::Null);
                Some(v)
                // plugins dropped here: the export file is closed
            }
            Ok(Err(_)) => None,
            Err(msg) => {
                log2.lock().unwrap().push(json!({"ev":"panic","where":"plugin stage","msg":msg.chars().take(200).collect::<String>()}));
                None
            }
        }
    });
    // producer (this thread)
    for (i, m) in msgs.iter().enumerate() {
        if sched.producer_stall_every > 0 && i % sched.producer_stall_every == sched.producer_stall_every - 1 {
            std::thread::sleep(std::time::Duration::from_millis(1));
        }
        if sync_sender_send_delay_if_full(m.clone(), &tx_for_parse_thread).is_err() {
            break;
        }
    }
    drop(tx_for_parse_thread);
    let lc_res = lc_thread.join().unwrap(); // the write handle stays alive until the plugin stage is done (convert.rs 867)
    let state = plugin_thread.join().unwrap();
    let mut events: Vec<Value> = std::mem::take(&mut *log.lock().unwrap());
    let mut table = Vec::new();
    match &lc_res {
        Ok(_w) => {
            if let Some(rr) = lcs_r.read() {
                for (id, b) in &rr {
                    if let Some(lc) = b.get_one() {
                        table.push(LcFinal { id: *id, ecu: ecu_str(&lc.ecu), start: lc.start_time, end: lc.end_time(), isres: lc.is_resume(),
                                             rstart: lc.resume_start_time(), rtime: lc.resume_time(), nr: lc.nr_msgs });
                    }
                }
            }
        }
        Err(msg) => events.push(json!({"ev":"panic","where":"lifecycle stage","msg":msg.chars().take(200).collect::<String>()})),
    }
    table.sort_by_key(|l| l.id);
    drop(lc_res);
    // renumber lifecycle ids in order of first appearance at the plugin stage
    let mut ren: BTreeMap<u32, u32> = BTreeMap::new();
    let mut lc_of = BTreeMap::new();
    for e in events.iter_mut() {
        if e["ev"] == "proc" || e["ev"] == "out" {
            let raw = e["lcraw"].as_u64().unwrap() as u32;
            let n = ren.len() as u32 + 1;
            let id = if raw == 0 { 0 } else { *ren.entry(raw).or_insert(n) };
            if e["ev"] == "proc" {
                lc_of.insert(e["i"].as_i64().unwrap(), raw);
            }
            let o = e.as_object_mut().unwrap();
            o.remove("lcraw");
            o.insert("lc".into(), json!(id));
        }
    }
    // the export file: info messages first, then the exported messages
    let exists = std::path::Path::new(&file).exists();
    let mut ninfo = 0usize;
    let mut info_ok = true;
    let mut skipped = 0usize;
    if exists {
        let data = std::fs::read(&file).unwrap_or_default();
        let total = data.len();
        let mut it = adlt::utils::DltMessageIterator::new(0, std::io::Cursor::new(data));
        let mut reread = Vec::new();
        for m in it.by_ref() {
            reread.push(m);
        }
        skipped = it.bytes_skipped + total.saturating_sub(it.bytes_processed + it.bytes_skipped);
        let is_info = |m: &DltMessage| m.apid().map(|a| *a == char4("VsDl")).unwrap_or(false) && m.ctid().map(|c| *c == char4("Info")).unwrap_or(false);
        while ninfo < reread.len() && is_info(&reread[ninfo]) {
            ninfo += 1;
        }
        let want: Vec<&String> = cfg.infos.iter().filter(|s| !s.is_empty()).collect();
        for (k, m) in reread[..ninfo].iter().enumerate() {
            let txt = m.payload_as_text().map(|t| t.to_string()).unwrap_or_default();
            if k == 0 {
                info_ok &= txt.starts_with("File created by adlt v");
            } else {
                info_ok &= want.get(k - 1).map(|w| **w == txt).unwrap_or(false);
            }
        }
        for (k, m) in reread[ninfo..].iter().enumerate() {
            let p = pos_of(m);
            let same = p >= 0 && originals.get(p as usize).map(|o| same_fields(o, m)).unwrap_or(false);
            events.push(json!({"ev":"wr","k":k + 1,"i":p,"same":same}));
        }
        let _ = std::fs::remove_file(&file);
    }
    let (st_proc, st_exp, st_lcs) = match &state {
        Some(v) => (
            v["infos"]["nrProcessedMsgs"].as_i64().unwrap_or(-1),
            v["infos"]["nrExportedMsgs"].as_i64().unwrap_or(-1),
            v["infos"]["lifecyclesExported"].as_array().map(|a| a.iter().map(|x| *ren.get(&(x.as_u64().unwrap_or(0) as u32)).unwrap_or(&0)).collect::<Vec<u32>>()).unwrap_or_default(),
        ),
        None => (-1, -1, vec![]),
    };
    events.push(json!({"ev":"end","file":exists,"ninfo":ninfo,"info_ok":info_ok,"skipped":skipped,"st":state.is_some(),
                       "st_proc":st_proc,"st_exp":st_exp,"st_lcs":st_lcs}));
    RunOut { events, table, lc_of, constructed: true }
}

// ------------------------------------------------------------------------------------------------ generators
struct Gen {
    rng: Rng,
}
const ECUS: [&str; 3] = ["EA", "EB", "ECUC"];
const APIDS: [&str; 4] = ["APA", "APB", "SYS", ""];
const CTIDS: [&str; 3] = ["CTA", "CTB", "JOUR"];

impl Gen {
    fn attrs(&mut self, m: &mut MsgIn) {
        m.apid = self.rng.pick(&APIDS).to_string();
        m.ctid = self.rng.pick(&CTIDS).to_string();
        m.plen = if self.rng.chance(1, 50) { self.rng.below(3000) as usize } else { self.rng.below(24) as usize };
        m.kind = match self.rng.below(40) { 0 => 1, 1 => 2, 2 | 3 => 3, _ => 0 };
        if m.apid.is_empty() && m.kind == 2 {
            m.kind = 0;
        }
        if m.kind == 1 {
            m.ts_dms = 0;
        }
    }
    /// ECUs that boot, log with a buffering delay that shrinks, are suspended and resumed, reboot quickly or after long gaps
    fn boots_stream(&mut self, max_n: u64) -> Vec<MsgIn> {
        let ne = self.rng.range(1, 3) as usize;
        let n = self.rng.range(3, max_n) as usize;
        let mut per: Vec<Vec<MsgIn>> = Vec::new();
        for e in 0..ne {
            let k = (n / ne).max(1);
            let mut v = Vec::new();
            let mut t = BASE_US + self.rng.below(20_000_000); // wall clock at the recorder
            let mut up: u64 = self.rng.below(3_000_000); // uptime of the ECU in us
            let mut delay: u64 = self.rng.below(4_000_000);
            while v.len() < k {
                match self.rng.below(60) {
                    0 | 1 => {
                        // reboot: uptime restarts, new initial delay
                        let gap = *self.rng.pick(&[2_000_000u64, 20_000_000, 120_000_000]);
                        t += self.rng.below(gap);
                        up = self.rng.below(2_000_000);
                        let dmax = *self.rng.pick(&[100_000u64, 4_000_000, 40_000_000]);
                        delay = self.rng.below(dmax);
                    }
                    2 => t += 10_000_000 + self.rng.below(90_000_000), // suspend: the wall clock goes on, the uptime clock stood still
                    3 => {
                        // recording gap: both clocks go on
                        let g = self.rng.below(100_000_000);
                        t += g;
                        up += g;
                    }
                    _ => {}
                }
                let step = match self.rng.below(10) { 0 => 0, 1..=5 => self.rng.below(200_000), 6..=8 => self.rng.below(3_000_000), _ => self.rng.below(30_000_000) };
                t += step;
                up += step;
                if delay > 0 && self.rng.chance(1, 3) {
                    delay -= self.rng.below(delay.min(500_000) + 1); // the buffering delay shrinks: the calculated start moves earlier
                }
                if up > 480_000_000 {
                    up = self.rng.below(1_000_000);
                }
                let mut m = MsgIn { ecu: ECUS[e].to_string(), apid: String::new(), ctid: String::new(), rx_us: t + delay, ts_dms: (up / 100) as u32, kind: 0, plen: 0 };
                self.attrs(&mut m);
                v.push(m);
            }
            per.push(v);
        }
        // merge the ECUs by reception time (as a recorder would), keeping each ECU's own order
        let mut idx = vec![0usize; ne];
        let mut out: Vec<MsgIn> = Vec::new();
        loop {
            let live: Vec<usize> = (0..ne).filter(|e| idx[*e] < per[*e].len()).collect();
            if live.is_empty() {
                break;
            }
            let e = if self.rng.chance(1, 20) { *self.rng.pick(&live) } else { *live.iter().min_by_key(|e| per[**e][idx[**e]].rx_us).unwrap() };
            out.push(per[e][idx[e]].clone());
            idx[e] += 1;
        }
        // keep the span inside what the trace's relative microseconds can hold
        out.retain(|m| m.rx_us < BASE_US + 1_350_000_000);
        out
    }
    /// streams on the 1 s grid of the lifecycle model's alphabets (reach merges, confirmations, resumes, relabelling)
    fn grid_stream(&mut self, max_n: u64) -> Vec<MsgIn> {
        let n = self.rng.range(2, max_n);
        let ne = self.rng.range(1, 3) as usize;
        let rxd = [0u64, 0, 1, 1, 2, 9, 10, 11, 29, 31, 59, 60, 61, 62, 120];
        let tsv = [0u64, 0, 1, 2, 9, 10, 11, 12, 20, 59, 60, 61, 70, 71, 116, 118, 130];
        let mut rx = 0u64;
        let mut v = Vec::new();
        for _ in 0..n {
            rx += *self.rng.pick(&rxd);
            if rx > 1300 {
                break;
            }
            let ts = *self.rng.pick(&tsv);
            let mut m = MsgIn { ecu: ECUS[self.rng.below(ne as u64) as usize].to_string(), apid: String::new(), ctid: String::new(),
                                rx_us: BASE_US + rx * 1_000_000, ts_dms: (ts * 10_000) as u32, kind: 0, plen: 0 };
            self.attrs(&mut m);
            v.push(m);
        }
        v
    }
    fn filters(&mut self) -> Vec<FilterCfg> {
        let n = match self.rng.below(6) { 0 | 1 => 0, 2 | 3 => 1, 4 => 2, _ => self.rng.range(3, 5) };
        (0..n).map(|_| {
            let crit = self.rng.below(8);
            FilterCfg {
                kind: self.rng.pick(&["pos", "pos", "neg", "neg", "evt"]).to_string(),
                not: self.rng.chance(1, 4),
                ecu: if crit & 1 != 0 { self.rng.pick(&ECUS).to_string() } else { String::new() },
                apid: if crit & 2 != 0 { self.rng.pick(&["APA", "APB", "SYS"]).to_string() } else { String::new() },
                ctid: if crit & 4 != 0 && self.rng.chance(1, 2) { self.rng.pick(&CTIDS).to_string() } else { String::new() },
                en: !self.rng.chance(1, 6),
            }
        }).collect()
    }
}

fn lci_of(l: &LcFinal) -> Lci {
    // as remote.rs builds BinLifecycle (1861-1866): start = resume_start_time, resume = Some(resume_time) for resumed lifecycles
    Lci { ecu: l.ecu.clone(), start: l.rstart, end: l.end, resume: if l.isres { Some(l.rtime) } else { None } }
}

fn main() {
    quiet_panics();
    let a = Args::from_env();
    let tmp = a.str("--tmp", "/verif/work/X03/tmp");
    std::fs::create_dir_all(&tmp).unwrap();
    let mut t = Trace::create(&a.str("--out", "trace.ndjson"));
    let mut case: u64;
    let mut ncases = 0u64;
    let shard = a.num("--shard", 0);
    let of = a.num("--of", 1).max(1);
    let seed = a.num("--seed", 1);
    let mut rng = Rng::new(seed);
    let sample = a.num("--sample", 300);
    let (mut replayed, mut fast, mut slow, mut drift, mut env_drift, mut pred_not_ok) = (0u64, 0u64, 0u64, 0u64, 0u64, 0u64);
    let mut drift_samples: Vec<Value> = Vec::new();
    let mut paths: BTreeMap<String, u64> = BTreeMap::new();
    let mut bump = |k: &str, n: u64| {
        *paths.entry(k.to_string()).or_insert(0) += n;
    };
    let lockstep = Sched { lock: true, cap: 1, consumer_stall_every: 0, producer_stall_every: 0 };

    // ---- TLC scenarios with predictions (spec/ExportPlugin.tla); ticks of 100 ms
    if let Some(f) = a.get("--scenarios") {
        let scns = read_ndjson(f);
        let every = (scns.len() as u64 / sample.max(1)).max(1);
        for (si, scn) in scns.iter().enumerate() {
            if si as u64 % of != shard {
                continue;
            }
            case = si as u64;
            let c = &scn["cfg"];
            let tick = |v: &Value| BASE_US + v.as_u64().unwrap() * GTICK_US;
            let cfg = Cfg {
                enabled: c["enabled"].as_bool().unwrap(),
                filters: c["filters"].as_array().unwrap().iter().map(|f| FilterCfg {
                    kind: f["kind"].as_str().unwrap().to_string(), not: f["neg"].as_bool().unwrap(), ecu: f["ecu"].as_str().unwrap().to_string(),
                    apid: f["apid"].as_str().unwrap().to_string(), ctid: f["ctid"].as_str().unwrap().to_string(), en: f["en"].as_bool().unwrap() }).collect(),
                lcis: if c["haslcis"].as_bool().unwrap() {
                    Some(c["lcis"].as_array().unwrap().iter().map(|l| Lci { ecu: l["ecu"].as_str().unwrap().to_string(), start: tick(&l["start"]), end: tick(&l["end"]),
                        resume: if l["hasres"].as_bool().unwrap() { Some(tick(&l["resume"])) } else { None } }).collect())
                } else { None },
                from_ms: if c["hasfrom"].as_bool().unwrap() { Some(tick(&c["from"]) / 1000) } else { None },
                to_ms: if c["hasto"].as_bool().unwrap() { Some(tick(&c["to"]) / 1000) } else { None },
                infos: c["infos"].as_array().unwrap().iter().enumerate().map(|(k, b)| if b.as_bool().unwrap() { format!("info text {}", k + 1) } else { String::new() }).collect(),
                bigint_strings: replayed % 2 == 1,
            };
            // concretisation: lifecycle (s, e) <- its messages carry timestamp e - s and are received at e + d
            let lcs = scn["lcs"].as_array().unwrap();
            let ins: Vec<MsgIn> = scn["msgs"].as_array().unwrap().iter().map(|m| {
                let l = &lcs[m["lc"].as_u64().unwrap() as usize - 1];
                let (s, e, d) = (l["s"].as_u64().unwrap(), l["e"].as_u64().unwrap(), m["d"].as_u64().unwrap());
                let apid = m["apid"].as_str().unwrap();
                MsgIn { ecu: l["ecu"].as_str().unwrap().to_string(), apid: if apid == "-" { String::new() } else { apid.to_string() }, ctid: "CTA".to_string(),
                        rx_us: BASE_US + (e + d) * GTICK_US, ts_dms: ((e - s) * GTICK_US / 100) as u32, kind: 0, plen: 4 }
            }).collect();
            let msgs: Vec<DltMessage> = ins.iter().enumerate().map(|(i, x)| build(i as u32, x, &mut rng)).collect();
            let out = run_case(&msgs, &cfg, &lockstep, &tmp, case);
            replayed += 1;
            // observation vs prediction (data equality only)
            let p = &scn["pred"];
            let procs: Vec<&Value> = out.events.iter().filter(|e| e["ev"] == "proc").collect();
            let outs: Vec<&Value> = out.events.iter().filter(|e| e["ev"] == "out").collect();
            let wrs: Vec<i64> = out.events.iter().filter(|e| e["ev"] == "wr").map(|e| e["i"].as_i64().unwrap() + 1).collect();
            let end = out.events.iter().find(|e| e["ev"] == "end");
            let panicked = out.events.iter().any(|e| e["ev"] == "panic" || e["ev"] == "cfgerr");
            // environment: did the real lifecycle stage produce the lifecycles the scenario intends?
            let mut env_same = procs.len() == ins.len();
            if env_same {
                for (k, e) in procs.iter().enumerate() {
                    let want_lc = scn["msgs"][k]["lc"].as_u64().unwrap();
                    let ps = &p["snaps"][want_lc as usize - 1];
                    let tk = |v: &Value| (BASE_US - REL0) as i64 + v.as_i64().unwrap() * GTICK_US as i64;
                    let s = &e["snap"];
                    if e["lc"].as_u64().unwrap() != want_lc || s["ok"] != true || s["ecu_ok"] != true || s["start"].as_i64().unwrap() != tk(&ps["start"])
                        || s["end"].as_i64().unwrap() != tk(&ps["end"]) || s["isres"] != ps["isres"] || s["rstart"].as_i64().unwrap() != tk(&ps["rstart"])
                        || s["rtime"].as_i64().unwrap() != tk(&ps["rtime"])
                    {
                        env_same = false;
                    }
                }
            }
            let pw: Vec<i64> = p["written"].as_array().unwrap().iter().map(|x| x.as_i64().unwrap()).collect();
            let plugin_same = !panicked && outs.len() == ins.len() && outs.iter().all(|e| e["intact"] == true) && procs.iter().all(|e| e["ret"] == true && e["intact"] == true)
                && wrs == pw && out.events.iter().filter(|e| e["ev"] == "wr").all(|e| e["same"] == true)
                && end.map(|e| e["file"] == p["file"] && e["ninfo"] == p["ninfo"] && e["info_ok"] == true && e["skipped"] == 0 && e["st"] == true
                    && e["st_proc"] == p["st_proc"] && e["st_exp"] == p["st_exp"] && e["st_lcs"] == p["kept"]).unwrap_or(false);
            let contract_ok = p["ok"].as_bool().unwrap();
            if !contract_ok {
                pred_not_ok += 1;
            }
            if !env_same {
                env_drift += 1;
            }
            if !(env_same && plugin_same) {
                drift += 1;
                if drift_samples.len() < 4 {
                    drift_samples.push(json!({"scenario": scn, "env_same": env_same, "observed": out.events}));
                }
            }
            // path counters from the prediction
            bump("scn_total", 1);
            if cfg.lcis.as_ref().map(|l| !l.is_empty()).unwrap_or(false) {
                bump("scn_with_lcis", 1);
                if !p["kept"].as_array().unwrap().is_empty() { bump("scn_lc_kept", 1); }
                if p["kept"].as_array().unwrap().len() < lcs.len() { bump("scn_lc_not_kept", 1); }
            }
            if p["snaps"].as_array().unwrap().iter().any(|s| s["isres"] == true) { bump("scn_resume_lc", 1); }
            if !cfg.filters.is_empty() { bump("scn_with_filters", 1); }
            if cfg.from_ms.is_some() || cfg.to_ms.is_some() { bump("scn_with_window", 1); }
            if !cfg.enabled { bump("scn_disabled", 1); }
            if p["file"] == false { bump("scn_no_file", 1); }
            if env_same && plugin_same && contract_ok && (replayed % every != 0) {
                fast += 1;
            } else {
                slow += 1;
                let mut hdr = cfg_hdr(&cfg);
                let h = hdr.as_object_mut().unwrap();
                h.insert("mode".into(), json!("lock"));
                h.insert("src".into(), json!("tlc"));
                h.insert("n".into(), json!(ins.len()));
                h.insert("twopass".into(), json!(false));
                h.insert("p1".into(), json!([]));
                h.insert("chosen".into(), json!([]));
                t.ev(json!({"ev":"reset","case":case,"hdr":hdr}));
                for e in out.events {
                    t.ev(e);
                }
                ncases += 1;
            }
        }
    }

    // ---- seeded random cases beyond the bounds
    let n_random = a.num("--random", 0);
    let max_n = a.num("--max-len", 60);
    let mut twopass_cases = 0u64;
    let mut nrand_run = 0u64;
    for r in 0..n_random {
        if r % of != shard {
            continue;
        }
        case = 10_000_000 + r;
        nrand_run += 1;
        let mut g = Gen { rng: Rng::new(seed.wrapping_mul(0x9E37_79B9_7F4A_7C15).wrapping_add(r)) };
        let big = g.rng.chance(1, 25);
        let ins = if r % 3 == 2 { g.grid_stream(max_n.min(40)) } else { g.boots_stream(if big { max_n * 10 } else { max_n }) };
        if ins.is_empty() {
            continue;
        }
        let msgs: Vec<DltMessage> = ins.iter().enumerate().map(|(i, x)| build(i as u32, x, &mut g.rng)).collect();
        let (p1table, p1assign) = first_pass(&msgs);
        // configuration
        let mut cfg = Cfg { enabled: !g.rng.chance(1, 25), filters: g.filters(), ..Default::default() };
        cfg.bigint_strings = g.rng.chance(1, 2);
        let ninfo = g.rng.below(4);
        cfg.infos = (0..ninfo).map(|k| if g.rng.chance(1, 4) { String::new() } else { format!("info {} of case {}", k, r) }).collect();
        let lo = msgs.iter().map(|m| m.reception_time_us).min().unwrap();
        let hi = msgs.iter().map(|m| m.reception_time_us).max().unwrap();
        if g.rng.chance(1, 4) {
            let m = g.rng.pick(&msgs).reception_time_us;
            cfg.from_ms = Some(if g.rng.chance(1, 2) { m / 1000 } else { (lo + g.rng.below(hi - lo + 1)) / 1000 });
        }
        if g.rng.chance(1, 4) {
            let m = g.rng.pick(&msgs).reception_time_us;
            cfg.to_ms = Some(if g.rng.chance(1, 2) { m / 1000 } else { (lo + g.rng.below(hi - lo + 1)) / 1000 });
        }
        let mut twopass = false;
        let mut chosen: Vec<u32> = Vec::new();
        match g.rng.below(10) {
            0 => cfg.lcis = None,
            1 => cfg.lcis = Some(vec![]),
            2..=5 if !p1table.is_empty() => {
                // lifecycles picked from the previous run, unmodified, in table order
                twopass = true;
                let mut v = Vec::new();
                for l in &p1table {
                    if g.rng.chance(1, 2) {
                        v.push(lci_of(l));
                        chosen.push(l.id);
                    }
                }
                if v.is_empty() {
                    v.push(lci_of(&p1table[0]));
                    chosen.push(p1table[0].id);
                }
                cfg.lcis = Some(v);
            }
            _ => {
                // picked from the previous run but perturbed around the boundaries of the rule, shuffled, duplicated, other ECU
                let mut v = Vec::new();
                for l in &p1table {
                    if g.rng.chance(2, 3) {
                        let mut c = lci_of(l);
                        match g.rng.below(12) {
                            0 => c.start += 1,
                            1 => c.start = c.start.saturating_sub(1),
                            2 => c.end += 1,
                            3 => c.end = c.end.saturating_sub(1),
                            4 => c.resume = c.resume.map(|x| x + 1_899_999),
                            5 => c.resume = c.resume.map(|x| x + 1_900_000),
                            6 => c.resume = c.resume.map(|x| x.saturating_sub(1_899_999)),
                            7 => c.resume = c.resume.map(|x| x.saturating_sub(1_900_000)),
                            8 => c.resume = if c.resume.is_some() { None } else { Some(c.start) },
                            9 => c.ecu = g.rng.pick(&ECUS).to_string(),
                            10 => { c.start = c.start.saturating_sub(g.rng.below(100_000_000).min(c.start - REL0)); c.end += g.rng.below(100_000_000); }
                            _ => {}
                        }
                        v.push(c.clone());
                        if g.rng.chance(1, 8) {
                            v.push(c);
                        }
                    }
                }
                if g.rng.chance(1, 3) {
                    v.reverse();
                }
                cfg.lcis = Some(v);
            }
        }
        // keep every configured time inside the representable window
        if let Some(v) = cfg.lcis.as_mut() {
            for l in v.iter_mut() {
                l.start = l.start.clamp(REL0, REL0 + 2_000_000_000);
                l.end = l.end.clamp(REL0, REL0 + 2_000_000_000);
                l.resume = l.resume.map(|x| x.clamp(REL0, REL0 + 2_000_000_000));
            }
        }
        let sched = match r % 4 {
            0 | 1 => lockstep.clone(),
            2 => Sched { lock: false, cap: if msgs.len() <= 20 { *g.rng.pick(&[1usize, 2, 64]) } else { *g.rng.pick(&[msgs.len() / 2, 8192]) }, consumer_stall_every: *g.rng.pick(&[0usize, 0, 7, 50]), producer_stall_every: 0 },
            _ => Sched { lock: false, cap: 8192, consumer_stall_every: 0, producer_stall_every: *g.rng.pick(&[0usize, 5, 40]) },
        };
        let out = run_case(&msgs, &cfg, &sched, &tmp, case);
        if !out.constructed {
            bump("rnd_cfg_rejected", 1);
        }
        // the previous run's lifecycle of every message, as index into `chosen` order of ids (0 = not chosen)
        let p1: Vec<u32> = (0..msgs.len() as i64).map(|p| p1assign.get(&p).map(|id| if chosen.contains(id) { 1 } else { 0 }).unwrap_or(0)).collect();
        let mut hdr = cfg_hdr(&cfg);
        {
            let h = hdr.as_object_mut().unwrap();
            h.insert("mode".into(), json!(if sched.lock { "lock" } else { "free" }));
            h.insert("src".into(), json!("random"));
            h.insert("n".into(), json!(msgs.len()));
            h.insert("twopass".into(), json!(twopass));
            h.insert("p1".into(), json!(if twopass { p1 } else { vec![] }));
            h.insert("chosen".into(), json!(chosen.len()));
        }
        if twopass {
            twopass_cases += 1;
        }
        bump(if sched.lock { "rnd_lockstep" } else { "rnd_free" }, 1);
        bump("rnd_lifecycles", out.table.len() as u64);
        if out.table.iter().any(|l| l.isres) { bump("rnd_with_resume_lc", 1); }
        if out.table.len() >= 2 { bump("rnd_multi_lc", 1); }
        if out.events.iter().any(|e| e["ev"] == "proc" && e["snap"]["ok"] == true) {
            // a lifecycle whose table entry at its first message differs from the final entry (early decision)
            let mut first: BTreeMap<u64, (i64, i64)> = BTreeMap::new();
            for e in out.events.iter().filter(|e| e["ev"] == "proc") {
                first.entry(e["lc"].as_u64().unwrap()).or_insert((e["snap"]["start"].as_i64().unwrap(), e["snap"]["end"].as_i64().unwrap()));
            }
            let finals: Vec<(i64, i64)> = out.table.iter().map(|l| (rel(l.start), rel(l.end))).collect();
            if first.values().any(|f| !finals.contains(f)) { bump("rnd_early_snapshot_differs_from_final", 1); }
        }
        t.ev(json!({"ev":"reset","case":case,"hdr":hdr}));
        for e in out.events {
            t.ev(e);
        }
        ncases += 1;
        let _ = out.lc_of;
    }
    t.flush();
    let summary = json!({"cases": ncases, "lines": t.lines, "replayed": replayed, "fast_path": fast, "slow_path": slow, "drift": drift, "env_drift": env_drift,
        "predicted_not_ok": pred_not_ok, "paths": paths, "drift_samples": drift_samples, "random": nrand_run, "twopass_cases": twopass_cases});
    if let Some(p) = a.get("--summary") {
        std::fs::write(p, summary.to_string()).unwrap();
    }
    eprintln!("{}", summary);
}
