//! Generator of DLT byte streams with ground truth (shared by the C01 and C04 drivers, included via #[path]).
//! Builds well-formed messages of either framing from explicit field values (independent of adlt's writer), garbage
//! runs, and the description of what the stream contains. Nothing here decides anything: the truth records go into
//! the trace header and TLC compares them with what the real iterator yielded.
#![allow(dead_code)]
use adlt::dlt::DltMessage;
use vh::*;

pub const STO: [u8; 4] = *b"DLT\x01";
pub const SER: [u8; 4] = *b"DLS\x01";
pub const F_UEH: u8 = 1;
pub const F_MSBF: u8 = 2;
pub const F_WEID: u8 = 4;
pub const F_WSID: u8 = 8;
pub const F_WTMS: u8 = 16;

#[derive(Clone)]
pub struct MsgSpec {
    pub serial: bool,
    pub htyp: u8,
    pub mcnt: u8,
    pub secs: u32,
    pub micros: u32,
    pub ecu_sto: [u8; 4],
    pub ecu_std: [u8; 4],
    pub sid: u32,
    pub tmsp: u32,
    pub ext: [u8; 10],
    pub payload: Vec<u8>,
    /// 0: payload is marker free, 1: contains the stream's own frame marker, 2: the other framing's marker, 3: both
    pub embed: u8,
}

pub fn split(x: u32) -> Value {
    json!([x >> 16, x & 0xffff])
}

impl MsgSpec {
    pub fn has(&self, f: u8) -> bool {
        self.htyp & f != 0
    }
    pub fn hdr_size(&self) -> usize {
        4 + if self.has(F_WEID) { 4 } else { 0 } + if self.has(F_WSID) { 4 } else { 0 } + if self.has(F_WTMS) { 4 } else { 0 }
            + if self.has(F_UEH) { 10 } else { 0 }
    }
    pub fn frame_size(&self) -> usize {
        if self.serial { 4 } else { 16 }
    }
    pub fn len(&self) -> usize {
        self.frame_size() + self.hdr_size() + self.payload.len()
    }
    pub fn payload_off(&self) -> usize {
        self.frame_size() + self.hdr_size()
    }
    pub fn bytes(&self) -> Vec<u8> {
        let mut b = Vec::with_capacity(self.len());
        if self.serial {
            b.extend_from_slice(&SER);
        } else {
            b.extend_from_slice(&STO);
            b.extend_from_slice(&self.secs.to_le_bytes());
            b.extend_from_slice(&self.micros.to_le_bytes());
            b.extend_from_slice(&self.ecu_sto);
        }
        let l = (self.hdr_size() + self.payload.len()) as u16;
        b.push(self.htyp);
        b.push(self.mcnt);
        b.extend_from_slice(&l.to_be_bytes());
        if self.has(F_WEID) {
            b.extend_from_slice(&self.ecu_std);
        }
        if self.has(F_WSID) {
            b.extend_from_slice(&self.sid.to_be_bytes());
        }
        if self.has(F_WTMS) {
            b.extend_from_slice(&self.tmsp.to_be_bytes());
        }
        if self.has(F_UEH) {
            b.extend_from_slice(&self.ext);
        }
        b.extend_from_slice(&self.payload);
        b
    }
    /// ground truth: what a reader of this message must report. Fields the framing does not carry are marked unknown
    /// (serial framing has no storage header: reception time unknown, ECU known only with WEID).
    pub fn rec(&self) -> Value {
        let ecu: Vec<u8> = if self.has(F_WEID) { self.ecu_std.to_vec() } else if self.serial { vec![] } else { self.ecu_sto.to_vec() };
        json!({
            "ecu": ecu,
            "tknown": !self.serial,
            "secs": if self.serial { json!([0, 0]) } else { split(self.secs) },
            "micros": if self.serial { 0 } else { self.micros },
            "wtms": self.has(F_WTMS),
            "tmsp": split(if self.has(F_WTMS) { self.tmsp } else { 0 }),
            "mcnt": self.mcnt,
            "htyp": self.htyp,
            "len": self.hdr_size() + self.payload.len(),
            "ext": if self.has(F_UEH) { self.ext.to_vec() } else { vec![] },
            "paylen": self.payload.len(),
            "payhash": hash31(&self.payload),
        })
    }
}

/// projection of a message yielded by the real code onto the same record shape
pub fn obs_rec(m: &DltMessage) -> Value {
    let ext: Vec<u8> = match &m.extended_header {
        Some(e) => {
            let mut v = vec![e.verb_mstp_mtin, e.noar];
            v.extend_from_slice(e.apid.as_buf());
            v.extend_from_slice(e.ctid.as_buf());
            v
        }
        None => vec![],
    };
    let secs = m.reception_time_us / 1_000_000;
    json!({
        "ecu": m.ecu.as_buf().to_vec(),
        "tknown": true,
        "secs": if secs <= u32::MAX as u64 { split(secs as u32) } else { json!([-1, -1]) },
        "micros": m.reception_time_us % 1_000_000,
        "wtms": m.standard_header.has_timestamp(),
        "tmsp": split(m.timestamp_dms),
        "mcnt": m.standard_header.mcnt,
        "htyp": m.standard_header.htyp,
        "len": m.standard_header.len,
        "ext": ext,
        "paylen": m.payload.len(),
        "payhash": hash31(&m.payload),
    })
}

/// hash of everything a yielded message carries except its index (C04 compares parses of the same bytes)
pub fn msg_hash(m: &DltMessage) -> u32 {
    let mut b = Vec::with_capacity(m.payload.len() + 40);
    b.extend_from_slice(&m.reception_time_us.to_le_bytes());
    b.extend_from_slice(m.ecu.as_buf());
    b.extend_from_slice(&m.timestamp_dms.to_le_bytes());
    b.push(m.standard_header.htyp);
    b.push(m.standard_header.mcnt);
    b.extend_from_slice(&m.standard_header.len.to_le_bytes());
    if let Some(e) = &m.extended_header {
        b.push(1);
        b.push(e.verb_mstp_mtin);
        b.push(e.noar);
        b.extend_from_slice(e.apid.as_buf());
        b.extend_from_slice(e.ctid.as_buf());
    } else {
        b.push(0);
    }
    b.extend_from_slice(&m.payload);
    hash31(&b)
}

#[derive(Clone)]
pub enum Seg {
    G(Vec<u8>),
    M(MsgSpec),
}

#[derive(Clone)]
pub struct Stream {
    pub serial: bool,
    pub segs: Vec<Seg>,
}

pub struct Layout {
    pub bytes: Vec<u8>,
    /// (offset, length, index into segs) of every message
    pub msgs: Vec<(usize, usize, usize)>,
    /// garbage length before message i (i < msgs.len()) and after the last message (last entry)
    pub garb: Vec<usize>,
}

impl Stream {
    pub fn layout(&self) -> Layout {
        let mut bytes = Vec::new();
        let mut msgs = Vec::new();
        let mut garb = vec![0usize];
        for (i, s) in self.segs.iter().enumerate() {
            match s {
                Seg::G(g) => {
                    *garb.last_mut().unwrap() += g.len();
                    bytes.extend_from_slice(g);
                }
                Seg::M(m) => {
                    let b = m.bytes();
                    msgs.push((bytes.len(), b.len(), i));
                    bytes.extend_from_slice(&b);
                    garb.push(0);
                }
            }
        }
        Layout { bytes, msgs, garb }
    }
    pub fn msg(&self, seg: usize) -> &MsgSpec {
        match &self.segs[seg] {
            Seg::M(m) => m,
            _ => panic!("not a message"),
        }
    }
}

fn rand_id(rng: &mut Rng) -> [u8; 4] {
    let mut b = [0u8; 4];
    match rng.below(4) {
        0 => {
            for x in b.iter_mut() {
                *x = rng.range(0x20, 0x7e) as u8;
            }
        }
        1 => {
            let n = rng.range(0, 3) as usize;
            for x in b.iter_mut().take(n) {
                *x = rng.range(b'A' as u64, b'Z' as u64) as u8;
            }
        }
        2 => {
            for x in b.iter_mut() {
                *x = rng.next_u64() as u8;
            }
        }
        _ => b = *rng.pick(&[*b"ECU1", *b"ECU2", *b"DLTD", *b"DLSX", *b"\0\0\0\0", *b"\xff\xff\xff\xff"]),
    }
    b
}

/// random header field values for a message of the given shape (flags = the five htyp shape bits) and payload
pub fn rand_msg(rng: &mut Rng, serial: bool, flags: u8, payload: Vec<u8>) -> MsgSpec {
    let mut ext = [0u8; 10];
    for x in ext.iter_mut() {
        *x = rng.next_u64() as u8;
    }
    MsgSpec {
        serial,
        htyp: 0x20 | (flags & 0x1f),
        mcnt: rng.next_u64() as u8,
        secs: match rng.below(4) { 0 => 0, 1 => u32::MAX, _ => rng.next_u64() as u32 },
        micros: match rng.below(4) { 0 => 0, 1 => 999_999, _ => rng.below(1_000_000) as u32 },
        ecu_sto: rand_id(rng),
        ecu_std: rand_id(rng),
        sid: rng.next_u64() as u32,
        tmsp: match rng.below(4) { 0 => 0, 1 => u32::MAX, _ => rng.next_u64() as u32 },
        ext,
        payload,
        embed: 0,
    }
}

pub fn max_payload(flags: u8) -> usize {
    let m = MsgSpec { serial: false, htyp: flags, mcnt: 0, secs: 0, micros: 0, ecu_sto: [0; 4], ecu_std: [0; 4], sid: 0, tmsp: 0, ext: [0; 10], payload: vec![], embed: 0 };
    65535 - m.hdr_size()
}

pub fn rand_garbage(rng: &mut Rng, n: usize) -> Vec<u8> {
    match rng.below(6) {
        0 => vec![0x55; n],
        1 => {
            // prefixes / repetitions of (incomplete) markers, never a complete one
            let pat: &[u8] = *rng.pick(&[&b"DLS"[..], &b"DLT"[..], &b"DL"[..], &b"D"[..], &b"LS\x01"[..], &b"DLTDLS"[..], &b"\x01DL"[..]]);
            (0..n).map(|i| pat[i % pat.len()]).collect()
        }
        2 => (0..n).map(|_| *rng.pick(&[b'D', b'L', b'T', b'S', 1u8, 0u8])).collect(),
        _ => rng.bytes(n),
    }
}

/// offsets (relative to the start of a garbage run) around which byte-count dependent state could flip: the 64 KiB
/// boundary, the maximal storage message size 16 + 65535 = 65551 and its neighbours, 128 KiB
pub const SCALE_BOUNDARIES: [usize; 8] = [65535, 65536, 65550, 65551, 65552, 65553, 131071, 131072];
/// the garbage-run lengths of the scale classes (longer than any message; the token model of Framing.tla has no such class)
pub const SCALE_LENGTHS: [usize; 5] = [65551, 65552, 65553, 131072, 200000];

/// long garbage run of exactly n bytes. style 0: random bytes; 1: random bytes with partial frame markers ("D", "DL", "DLT",
/// "DLS", "DLT\0", "DLS\x02" - never a complete marker) ending at / straddling every scale boundary and at the very end of
/// the run (directly in front of the next message); 2: cyclic "DLTS\xaa\0"; 3: cyclic "DLS" / "DLT" fragments.
/// (Complete markers that arise by accident are removed by `sanitize`.)
pub fn long_garbage(rng: &mut Rng, n: usize, style: u64) -> Vec<u8> {
    let frags: [&[u8]; 7] = [b"D", b"DL", b"DLT", b"DLS", b"DLT\0", b"DLS\x02", b"DLTDLS"];
    match style % 4 {
        0 => rng.bytes(n),
        1 => {
            let mut g = rng.bytes(n);
            let mut put = |g: &mut Vec<u8>, end: usize, f: &[u8]| {
                if end <= g.len() && end >= f.len() {
                    g[end - f.len()..end].copy_from_slice(f);
                }
            };
            for b in SCALE_BOUNDARIES {
                let f = *rng.pick(&frags);
                // fragment ends exactly at the boundary, or straddles it by one byte
                let end = if rng.chance(1, 2) { b } else { b + 1 };
                put(&mut g, end, f);
            }
            let f = *rng.pick(&frags[..4]);
            put(&mut g, n, f);
            g
        }
        2 => (0..n).map(|i| b"DLTS\xaa\0"[i % 6]).collect(),
        _ => {
            let pat: &[u8] = *rng.pick(&[&b"DLS"[..], &b"DLT"[..], &b"DLTDLS"[..], &b"DL"[..]]);
            (0..n).map(|i| pat[i % pat.len()]).collect()
        }
    }
}

fn is_marker(b: &[u8], i: usize) -> bool {
    i + 4 <= b.len() && (b[i..i + 4] == STO || b[i..i + 4] == SER)
}

/// make the stream satisfy the C01 domain: no frame marker anywhere except at message starts and inside payloads that
/// are declared to embed markers (embed != 0). Garbage / payload bytes are patched, header fields re-rolled.
pub fn sanitize(st: &mut Stream, rng: &mut Rng) {
    for _round in 0..200 {
        // region map
        let mut regions: Vec<(usize, usize, usize, usize)> = Vec::new(); // (start, end, seg, payload_start(abs) or usize::MAX for garbage)
        let mut bytes = Vec::new();
        for (i, s) in st.segs.iter().enumerate() {
            let a = bytes.len();
            match s {
                Seg::G(g) => {
                    bytes.extend_from_slice(g);
                    regions.push((a, bytes.len(), i, usize::MAX));
                }
                Seg::M(m) => {
                    bytes.extend_from_slice(&m.bytes());
                    regions.push((a, bytes.len(), i, a + m.payload_off()));
                }
            }
        }
        let find = |p: usize| regions.iter().position(|r| p >= r.0 && p < r.1).unwrap();
        let mut dirty = false;
        let mut i = 0;
        while i + 4 <= bytes.len() {
            if is_marker(&bytes, i) {
                let r = regions[find(i)];
                let at_msg_start = r.3 != usize::MAX && i == r.0;
                let inside_embed = r.3 != usize::MAX && i >= r.3 && i + 4 <= r.1 && st.msg(r.2).embed != 0;
                if !at_msg_start && !inside_embed {
                    // patch the first mutable byte of the occurrence
                    let mut patched = false;
                    for j in i..i + 4 {
                        let q = regions[find(j)];
                        match &mut st.segs[q.2] {
                            Seg::G(g) => {
                                g[j - q.0] ^= 0x80;
                                patched = true;
                            }
                            Seg::M(m) => {
                                if j >= q.3 {
                                    m.payload[j - q.3] ^= 0x80;
                                    patched = true;
                                }
                            }
                        }
                        if patched {
                            break;
                        }
                    }
                    if !patched {
                        // entirely inside header fields: re-roll them
                        if let Seg::M(m) = &mut st.segs[r.2] {
                            let mut n = rand_msg(rng, m.serial, m.htyp & 0x1f, std::mem::take(&mut m.payload));
                            n.embed = m.embed;
                            *m = n;
                        }
                    }
                    dirty = true;
                    break;
                }
            }
            i += 1;
        }
        if !dirty {
            return;
        }
    }
    panic!("sanitize did not converge");
}

/// number of frame-marker occurrences that are neither a message start nor inside a declared embedding payload
pub fn spurious_markers(st: &Stream) -> usize {
    let l = st.layout();
    let mut n = 0;
    for i in 0..l.bytes.len() {
        if is_marker(&l.bytes, i) {
            let ok = l.msgs.iter().any(|(o, len, seg)| {
                let m = st.msg(*seg);
                i == *o || (m.embed != 0 && i >= o + m.payload_off() && i + 4 <= o + len)
            });
            if !ok {
                n += 1;
            }
        }
    }
    n
}

/// independent walk over a storage-framed file by its length fields: Some(list of (off, len)) iff the file is a plain
/// concatenation of storage-framed messages (marker at every start, lengths add up to the file size)
pub fn walk_storage(b: &[u8], max_msgs: usize) -> Option<Vec<(usize, usize)>> {
    let mut v = Vec::new();
    let mut o = 0;
    while o < b.len() && v.len() < max_msgs {
        if o + 20 > b.len() || b[o..o + 4] != STO {
            return None;
        }
        let l = u16::from_be_bytes([b[o + 18], b[o + 19]]) as usize;
        if l < 4 || o + 16 + l > b.len() {
            return None;
        }
        v.push((o, 16 + l));
        o += 16 + l;
    }
    Some(v)
}

/// independent field extraction from the bytes of one storage-framed message (for repository example files)
pub fn spec_from_storage_bytes(b: &[u8]) -> Option<MsgSpec> {
    let htyp = b[16];
    let mut m = MsgSpec { serial: false, htyp, mcnt: b[17], secs: u32::from_le_bytes(b[4..8].try_into().unwrap()),
        micros: u32::from_le_bytes(b[8..12].try_into().unwrap()), ecu_sto: b[12..16].try_into().unwrap(), ecu_std: [0; 4], sid: 0, tmsp: 0,
        ext: [0; 10], payload: vec![], embed: 0 };
    let mut o = 20;
    if b.len() < 16 + m.hdr_size() {
        return None;
    }
    if m.has(F_WEID) {
        m.ecu_std = b[o..o + 4].try_into().unwrap();
        o += 4;
    }
    if m.has(F_WSID) {
        m.sid = u32::from_be_bytes(b[o..o + 4].try_into().unwrap());
        o += 4;
    }
    if m.has(F_WTMS) {
        m.tmsp = u32::from_be_bytes(b[o..o + 4].try_into().unwrap());
        o += 4;
    }
    if m.has(F_UEH) {
        m.ext = b[o..o + 10].try_into().unwrap();
        o += 10;
    }
    m.payload = b[o..].to_vec();
    Some(m)
}
