//! C12 driver: filter sets on the REAL set matcher (match_filters on containers built by StreamContext::from and like
//! the search/export code) and on the REAL stream filter (filter_as_streams through std::sync::mpsc channels).
//!
//! Scenarios come from TLC (spec/mc/MCFilterSet.tla: item numbers of a filter set + predicted Keep per message and
//! predicted forwarding per stream) or from the seeded random generator (no prediction). The only comparison done here
//! is data equality between an observation and TLC's prediction; cases that differ, a random sample of the others and
//! all random cases are written to the trace and decided by TLC (spec/FilterSetTrace.tla).
#[path = "c11/abs.rs"]
mod abs;
use abs::*;
use adlt::dlt::DltMessage;
use adlt::filter::functions::{filter_as_streams, filters_from_dlf};
use adlt::filter::{Filter, FilterKindContainer};
use adlt::utils::remote_utils::{match_filters, process_stream_new_msgs, StreamContext};
use std::collections::HashSet;
use std::io::BufRead;
use std::sync::mpsc::channel;
use vh::*;

type Container = FilterKindContainer<Vec<Filter>>;

fn logger() -> slog::Logger {
    slog::Logger::root(slog::Discard, slog::o!())
}

/// container built by the remote `stream` command: StreamContext::from(JSON)
fn container_ctx(fs: &[AFilter]) -> Result<Container, String> {
    let js = json!({"window":[0,100],"filters": fs.iter().map(|f| render_json(f, true)).collect::<Vec<_>>()}).to_string();
    StreamContext::from(&logger(), "stream", &js).map(|c| c.filters).map_err(|e| format!("StreamContext::from failed: {}", e))
}

/// container built like the search command and the export plugin do: Filter::from_json, enabled filters only
fn container_cont(fs: &[AFilter]) -> Result<Container, String> {
    let mut c: Container = Default::default();
    for f in fs {
        let r = Filter::from_json(&render_json(f, true).to_string()).map_err(|e| format!("{:?}", e))?;
        if r.enabled {
            let k = r.kind;
            c[k].push(r);
        }
    }
    Ok(c)
}

/// the element kinds a minimally rendered DLF filter writes
fn dlf_elements(f: &AFilter) -> Vec<&'static str> {
    let mut v = Vec::new();
    if f.ecu.k != "none" { v.push("ecu"); }
    if f.apid.k != "none" { v.push("apid"); }
    if f.ctid.k != "none" { v.push("ctid"); }
    if f.typ.k != "none" { v.push("ctrl"); }
    if f.pay.k != "none" { v.push("pay"); }
    if f.lmin >= 0 { v.push("lmin"); }
    if f.lmax >= 0 { v.push("lmax"); }
    v
}

/// the filter list `adlt convert` passes to filter_as_streams: a DLF file if every filter can be written in one (and
/// the case asks for it), else JSON. dlf_style 1: every filter with the full element set (like dlt-viewer writes it);
/// 2: every filter with the elements of its own criteria only (a reduced / hand-written file), so that a later filter
/// omits elements an earlier one has
fn filter_list(fs: &[AFilter], dlf_style: u32) -> (Result<Vec<Filter>, String>, &'static str) {
    // a panic of a loader is data (reported as a failed load), not the end of the driver
    match catch(std::panic::AssertUnwindSafe(|| filter_list_inner(fs, dlf_style))) {
        Ok(r) => r,
        Err(p) => (Err(format!("panic: {}", p)), "panicked"),
    }
}
fn filter_list_inner(fs: &[AFilter], dlf_style: u32) -> (Result<Vec<Filter>, String>, &'static str) {
    let dlf_ok = fs.iter().all(|f| !f.not && f.lcs.k == "none" && f.ecu.k != "re" && (f.typ.k == "none" || (f.typ.k == "mstp" && f.typ.v == 3))
        && !(f.pay.k == "sub" && !f.pay.ic)); // a literal case-sensitive payload text is left to C11 (known finding there)
    let conv_ok = !fs.is_empty() && fs.iter().all(|f| f.enabled && !f.not && f.kind == 0 && f.ecu.k == "none" && f.typ.k == "none" && f.lmin < 0 && f.lmax < 0
        && f.pay.k == "none" && f.lcs.k == "none" && f.apid.k == "lit" && f.apid.w.len() <= 4 && f.ctid.k == "lit" && f.ctid.w.len() <= 4);
    if conv_ok {
        // a dlt-convert "APID CTID " list (what `adlt convert -f` reads when the file is no DLF file)
        let refs: Vec<&AFilter> = fs.iter().collect();
        let t = render_conv(&refs);
        let n = fs.len();
        let r = adlt::filter::functions::filters_from_convert_format(t.as_bytes()).map_err(|e| format!("{:?}", e))
            .and_then(|v| if v.len() == n { Ok(v) } else { Err(format!("filters_from_convert_format returned {} filters for {} pairs", v.len(), n)) });
        return (r, "convert_list");
    }
    if dlf_style > 0 && dlf_ok && !fs.is_empty() {
        let refs: Vec<&AFilter> = fs.iter().collect();
        let minimal = dlf_style == 2;
        let t = render_dlf_file("", &refs, if minimal { DlfStyle::MinimalFlags } else { DlfStyle::Full });
        let later_omits = (1..fs.len()).any(|j| (0..j).any(|i| dlf_elements(&fs[i]).iter().any(|e| !dlf_elements(&fs[j]).contains(e))));
        let how = if !minimal { "dlf_full" } else if later_omits { "dlf_minimal_later_filter_omits_elements" } else { "dlf_minimal" };
        (filters_from_dlf(t.as_bytes()).map_err(|e| format!("{:?}", e)), how)
    } else {
        (fs.iter().map(|f| Filter::from_json(&render_json(f, true).to_string()).map_err(|e| format!("{:?}", e))).collect(), "json")
    }
}

struct StreamObs {
    fwd: Vec<(usize, bool)>, // (position 1-based or 0, intact)
    ret: Result<(usize, usize), String>,
}

fn run_stream(filters: &[Filter], msgs: &[DltMessage], s: &[usize]) -> Result<StreamObs, String> {
    let input: Vec<DltMessage> = s.iter().enumerate().map(|(p, k)| {
        let mut m = msgs[*k - 1].clone();
        m.index = (p + 1) as u32;
        m
    }).collect();
    let orig = input.clone();
    catch(std::panic::AssertUnwindSafe(move || {
        let (tx, rx) = channel();
        let (tx2, rx2) = channel();
        for m in input {
            tx.send(m).unwrap();
        }
        drop(tx);
        let ret = filter_as_streams(filters, &rx, &|m| tx2.send(m)).map_err(|e| format!("{:?}", e));
        drop(tx2);
        let mut fwd = Vec::new();
        for m in rx2.iter() {
            let p = m.index as usize;
            if p >= 1 && p <= orig.len() {
                fwd.push((p, orig[p - 1] == m));
            } else {
                fwd.push((0, false));
            }
        }
        StreamObs { fwd, ret }
    }))
}

/// third mode "consumer hangs up": the output function accepts `k` messages and fails from then on (the receiver behind it is gone).
/// Observed: what was forwarded, the result, and how many input messages the filter left in its input channel.
struct HangObs {
    fwd: Vec<(usize, bool)>,
    ret: Result<(usize, usize), String>,
    left: usize,
    refused: bool, // the output function was asked for a (k+1)-th message and refused it
}
fn run_stream_hangup(filters: &[Filter], msgs: &[DltMessage], s: &[usize], k: usize) -> Result<HangObs, String> {
    let input: Vec<DltMessage> = s.iter().enumerate().map(|(p, k)| {
        let mut m = msgs[*k - 1].clone();
        m.index = (p + 1) as u32;
        m
    }).collect();
    let orig = input.clone();
    catch(std::panic::AssertUnwindSafe(move || {
        let (tx, rx) = channel();
        let (tx2, rx2) = channel();
        for m in input {
            tx.send(m).unwrap();
        }
        drop(tx);
        let taken = std::cell::Cell::new(0usize);
        let refused = std::cell::Cell::new(false);
        let ret = filter_as_streams(filters, &rx, &|m| {
            if taken.get() >= k {
                refused.set(true);
                Err(std::sync::mpsc::SendError(m))
            } else {
                taken.set(taken.get() + 1);
                tx2.send(m)
            }
        }).map_err(|e| format!("{:?}", e));
        let left = rx.try_iter().count();
        drop(tx2);
        let mut fwd = Vec::new();
        for m in rx2.iter() {
            let p = m.index as usize;
            if p >= 1 && p <= orig.len() {
                fwd.push((p, orig[p - 1] == m));
            } else {
                fwd.push((0, false));
            }
        }
        HangObs { fwd, ret, left, refused: refused.get() }
    }))
}

/// second mode "paced producer": filter_as_streams runs on its own thread while the producer pauses before the first
/// and after each of the first messages, sends the rest at once and then drops the sender. The result of correct code
/// does not depend on the pacing; a filter that stops when its input is momentarily empty loses messages here.
const PACE_MS: u64 = 15;
const PACED_PAUSES: usize = 3;
fn run_stream_paced(filters: Vec<Filter>, msgs: &[DltMessage], s: &[usize]) -> Result<StreamObs, String> {
    let input: Vec<DltMessage> = s.iter().enumerate().map(|(p, k)| {
        let mut m = msgs[*k - 1].clone();
        m.index = (p + 1) as u32;
        m
    }).collect();
    let orig = input.clone();
    let (tx, rx) = channel();
    let (tx2, rx2) = channel();
    let h = std::thread::spawn(move || {
        let r = catch(std::panic::AssertUnwindSafe(|| filter_as_streams(&filters, &rx, &|m| tx2.send(m)).map_err(|e| format!("{:?}", e))));
        drop(tx2);
        r
    });
    std::thread::sleep(std::time::Duration::from_millis(PACE_MS));
    for (p, m) in input.into_iter().enumerate() {
        let _ = tx.send(m); // a receiver that is gone already shows up as missing messages
        if p < PACED_PAUSES {
            std::thread::sleep(std::time::Duration::from_millis(PACE_MS));
        }
    }
    drop(tx);
    let ret = match h.join() {
        Ok(Ok(r)) => r,
        Ok(Err(p)) => return Err(p),
        Err(_) => return Err("filter thread panicked".to_string()),
    };
    let mut fwd = Vec::new();
    for m in rx2.iter() {
        let p = m.index as usize;
        if p >= 1 && p <= orig.len() {
            fwd.push((p, orig[p - 1] == m));
        } else {
            fwd.push((0, false));
        }
    }
    Ok(StreamObs { fwd, ret })
}

/// the remote stream front-end: StreamContext::from(JSON) and process_stream_new_msgs as remote.rs drives them - the
/// messages arrive in `portions` portions, each call gets the messages from all_msgs_last_processed_len on; the stream
/// consists of filtered_msgs, or of all messages when the context reports no active filter. Returns, per position of the
/// input, whether the stream contains it.
fn run_ctx_stream(fs: &[AFilter], command: &str, msgs: &[DltMessage], s: &[usize], portions: usize, chunk: usize) -> Result<Vec<bool>, String> {
    // request variants: without "filters" for the empty set, without "window" (defaults), with the one_pass / binary flags
    let mut req = serde_json::Map::new();
    if !(fs.is_empty() && portions != 2) {
        req.insert("filters".into(), json!(fs.iter().map(|f| render_json(f, true)).collect::<Vec<_>>()));
    }
    if !(portions == 2 && (command == "stream" || s.len() <= 20)) {
        req.insert("window".into(), json!([0, 1_000_000]));
    }
    if portions == 3 {
        req.insert("one_pass".into(), json!(false));
        req.insert("binary".into(), json!(command == "stream"));
    }
    let js = Value::Object(req).to_string();
    let all: Vec<DltMessage> = s.iter().map(|k| msgs[*k - 1].clone()).collect();
    let command = command.to_string();
    catch(std::panic::AssertUnwindSafe(move || -> Result<Vec<bool>, String> {
        let mut ctx = StreamContext::from(&logger(), &command, &js).map_err(|e| format!("StreamContext::from failed: {}", e))?;
        let n = all.len();
        let cuts: Vec<usize> = (1..=portions).map(|k| n * k / portions).collect();
        for avail in cuts {
            // remote.rs: process the messages that arrived since the last call (until nothing is left)
            // (max_chunk_size limits what one call looks at; the caller comes back for the rest)
            for _ in 0..(n + 4) {
                let from = ctx.all_msgs_last_processed_len.min(avail);
                process_stream_new_msgs(&mut ctx, from, &all[from..avail], chunk);
                if ctx.all_msgs_last_processed_len >= avail || ctx.all_msgs_last_processed_len <= from {
                    break;
                }
            }
        }
        let mut inside = vec![false; n];
        if ctx.filters_active {
            let mut prev: Option<usize> = None;
            for i in &ctx.filtered_msgs {
                if *i >= n || prev.map(|p| p >= *i).unwrap_or(false) {
                    return Err(format!("filtered_msgs is not an ascending list of message indices: {:?}", ctx.filtered_msgs));
                }
                prev = Some(*i);
                inside[*i] = true;
            }
        } else {
            for (i, x) in inside.iter_mut().enumerate() {
                *x = i < ctx.all_msgs_last_processed_len;
            }
        }
        Ok(inside)
    }))
    .unwrap_or_else(|p| Err(format!("panic: {}", p)))
}

// ---------------------------------------------------------------------------------------------- export plugin
// the hasher type of adlt's lifecycle map without naming its crate
trait HasherOf {
    type S;
}
impl<K: Eq + std::hash::Hash, V, M, S: std::hash::BuildHasher> HasherOf for evmap::ReadHandle<K, V, M, S> {
    type S = S;
}
type LcS = <adlt::lifecycle::LcsRType as HasherOf>::S;

/// the lifecycle table of the export runs: abstract lifecycle k (1..4) -> a real Lifecycle (own ecu, disjoint times)
struct LcTable {
    lcs_r: adlt::lifecycle::LcsRType,
    _lcs_w: evmap::WriteHandle<adlt::lifecycle::LifecycleId, adlt::lifecycle::LifecycleItem, (), LcS>,
    ids: Vec<u32>,          // real id of abstract lifecycle k (index k - 1)
    infos: Vec<Value>,      // lifecyclesToKeep entry of abstract lifecycle k
}
fn lc_table() -> LcTable {
    let (lcs_r, mut lcs_w) = evmap::Options::default().with_hasher(LcS::default()).construct::<adlt::lifecycle::LifecycleId, adlt::lifecycle::LifecycleItem>();
    let ecus = ["AB", "AB", "BA", "A"];
    let mut ids = Vec::new();
    let mut infos = Vec::new();
    for (k, ecu) in ecus.iter().enumerate() {
        let t0 = BASE_US + (k as u64 + 1) * 1_000_000_000;
        let mut m0 = mk_msg(0, ecu, t0, 100_000, vec![]);
        let mut lc = adlt::lifecycle::Lifecycle::new(&mut m0);
        let mut m1 = mk_msg(1, ecu, t0 + 50_000_000, 600_000, vec![]);
        let _ = lc.update(&mut m1, 0);
        ids.push(lc.id());
        infos.push(json!({"ecu": ecu, "startTime": lc.start_time - 1_000_000, "endTime": lc.end_time() + 1_000_000}));
        lcs_w.insert(lc.id(), lc);
    }
    lcs_w.refresh();
    LcTable { lcs_r, _lcs_w: lcs_w, ids, infos }
}

struct ExportObs {
    fwd: Vec<(usize, bool)>, // (position 1-based or 0, intact)
    exported: i64,           // nrExportedMsgs of the plugin state (-1: not reported)
}

/// an ExportPlugin with the filter set and the lifecycles to keep processes the messages; the exported file is read back
fn run_export(fs: &[AFilter], xmsgs: &[AMsg], s: &[usize], keep: &[u32], lct: &LcTable, file: &str) -> Result<ExportObs, String> {
    use adlt::plugins::plugin::Plugin;
    let real = |k: u32| -> u32 { lct.ids.get(k as usize - 1).copied().unwrap_or(900_000 + k) };
    let filters: Vec<Value> = fs.iter().map(|f| {
        let mut g = f.clone();
        g.lcs.ids = g.lcs.ids.iter().map(|k| real(*k)).collect();
        render_json(&g, true)
    }).collect();
    let mut cfg = json!({"name":"verif","exportFileName":file,"filters":filters});
    if keep.len() != 1 {
        cfg["enabled"] = json!(true); // otherwise left to its default
    }
    if !keep.is_empty() {
        cfg["lifecyclesToKeep"] = Value::Array(keep.iter().map(|k| lct.infos[*k as usize - 1].clone()).collect());
    }
    let input: Vec<DltMessage> = s.iter().enumerate().map(|(p, k)| {
        let a = &xmsgs[*k - 1];
        let mut m = mk_dlt_msg(p as u32 + 1, a);
        m.lifecycle = real(a.lc);
        m.timestamp_dms = p as u32 + 1; // the position travels in the timestamp (written to the file)
        m
    }).collect();
    let orig = input.clone();
    let _ = std::fs::remove_file(file);
    let res = catch(std::panic::AssertUnwindSafe(|| -> Result<i64, String> {
        let mut plugin = adlt::plugins::export::ExportPlugin::from_json(cfg.as_object().unwrap()).map_err(|e| format!("ExportPlugin::from_json failed: {}", e))?;
        plugin.set_lifecycle_read_handle(&lct.lcs_r);
        for mut m in input {
            plugin.process_msg(&mut m);
        }
        plugin.sync_all();
        let st = plugin.state();
        let n = st.read().map(|st| st.value["infos"]["nrExportedMsgs"].as_i64().unwrap_or(-1)).unwrap_or(-1);
        Ok(n)
    }));
    let exported = match res {
        Ok(Ok(n)) => n,
        Ok(Err(e)) => return Err(e),
        Err(p) => return Err(format!("panic: {}", p)),
    };
    let mut fwd = Vec::new();
    if let Ok(fi) = std::fs::File::open(file) {
        let rd = adlt::utils::LowMarkBufReader::new(fi, 512 * 1024, adlt::dlt::DLT_MAX_STORAGE_MSG_SIZE);
        let it = adlt::utils::get_dlt_message_iterator("dlt", 0, rd, adlt::utils::get_new_namespace(), None, None, None);
        for m in it {
            // the plugin writes its own info messages (apid VsDl, ctid Info) in front
            if m.apid().map(|a| a.as_buf() == b"VsDl").unwrap_or(false) && m.ctid().map(|c| c.as_buf() == b"Info").unwrap_or(false) {
                continue;
            }
            let p = m.timestamp_dms as usize;
            if p >= 1 && p <= orig.len() {
                let o = &orig[p - 1];
                let intact = o.ecu == m.ecu && o.extended_header == m.extended_header && o.payload == m.payload && o.standard_header.mcnt == m.standard_header.mcnt
                    && o.reception_time_us == m.reception_time_us;
                fwd.push((p, intact));
            } else {
                fwd.push((0, false));
            }
        }
    }
    let _ = std::fs::remove_file(file);
    Ok(ExportObs { fwd, exported })
}

/// no enabled positive or negative filter: only disabled, marker and event filters (or no filter at all)
fn inert_only(fs: &[AFilter]) -> bool {
    !fs.iter().any(|f| f.enabled && (f.kind == 0 || f.kind == 1))
}

struct Out {
    t: Trace,
    case: u64,
    cases_written: u64,
    /// at most this many TLC-predicted cases that differ from the prediction (or fail to load) are written; the verdict
    /// only needs some of them - a tree that deviates everywhere must not flood the trace validation
    deviating_cap: u64,
    big_backlog_cap: usize,
    deviating: u64,
    stats: std::collections::BTreeMap<String, u64>,
}
impl Out {
    fn bump(&mut self, k: &str, n: u64) {
        *self.stats.entry(k.to_string()).or_insert(0) += n;
    }
}

/// the additional front-ends of a case: remote stream context and export plugin
struct Extra<'a> {
    ctx: Option<(usize, &'static str, usize)>, // stream index, command, portions
    export: Option<(&'a [AMsg], &'a [usize], usize, &'a [u32], &'a LcTable, String)>, // xmsgs, xstream, option index, lifecycles to keep, table, file
}

struct Pred {
    xkeep: Vec<Vec<bool>>,
    keep_ev: Vec<bool>,
    fwd: Vec<(Vec<usize>, usize, usize)>, // per stream: positions, passed, filtered
}

fn run_case(o: &mut Out, fs: &[AFilter], amsgs: &[AMsg], streams: &[Vec<usize>], pred: Option<&Pred>, sampled: bool, dlf_style: u32, src: &str, paced: Option<(usize, Result<StreamObs, String>)>, extra: Extra) {
    let case = o.case;
    o.case += 1;
    let msgs: Vec<DltMessage> = amsgs.iter().enumerate().map(|(i, m)| mk_dlt_msg(i as u32 + 1, m)).collect();
    let mut evs: Vec<Value> = Vec::new();
    let mut drift = 0u64;
    let mut fast = 0u64;
    let mut failed: Option<String> = None;
    // the set matcher on both containers
    for (name, built) in [("match_filters_ctx", catch(std::panic::AssertUnwindSafe(|| container_ctx(fs)))), ("match_filters_cont", catch(std::panic::AssertUnwindSafe(|| container_cont(fs))))] {
        let c = match built {
            Ok(Ok(c)) => c,
            Ok(Err(e)) | Err(e) => {
                failed = Some(format!("{}: {}", name, e));
                continue;
            }
        };
        for (k, m) in msgs.iter().enumerate() {
            match catch(std::panic::AssertUnwindSafe(|| match_filters(m, &c))) {
                Ok(kept) => {
                    let d = pred.map(|p| p.keep_ev[k] != kept).unwrap_or(true);
                    if d || sampled {
                        evs.push(json!({"ev":"set","impl":name,"mi":k + 1,"kept":kept,"pred":pred.map(|p| p.keep_ev[k] as i32).unwrap_or(-1)}));
                    }
                    if pred.is_some() {
                        if d { drift += 1 } else { fast += 1 }
                    }
                }
                Err(p) => evs.push(json!({"ev":"panic","msg":p})),
            }
        }
        o.bump("set_decisions", msgs.len() as u64);
    }
    // the stream filter
    let (list, how) = filter_list(fs, dlf_style);
    o.bump(&format!("stream_filters_from_{}", how), 1);
    match list {
        Err(e) => failed = Some(format!("filter list ({}): {}", how, e)),
        Ok(filters) => {
            let mut runs: Vec<(usize, bool, Result<StreamObs, String>)> = streams.iter().enumerate().map(|(si, s)| (si, false, run_stream(&filters, &msgs, s))).collect();
            if let Some((si, ob)) = paced {
                o.bump(if inert_only(fs) { "paced_runs_inert_only_sets" } else { "paced_runs_active_sets" }, 1);
                runs.push((si, true, ob));
            }
            for (si, is_paced, run) in runs {
                let s = &streams[si];
                match run {
                    Err(p) => evs.push(json!({"ev":"panic","msg":p})),
                    Ok(ob) => {
                        let pos: Vec<usize> = ob.fwd.iter().map(|x| x.0).collect();
                        let intact = ob.fwd.iter().all(|x| x.1);
                        let d = match (pred, &ob.ret) {
                            (Some(p), Ok((a, b))) => !(pos == p.fwd[si].0 && intact && *a == p.fwd[si].1 && *b == p.fwd[si].2),
                            _ => true,
                        };
                        if pred.is_some() {
                            if d { drift += 1 } else { fast += 1 }
                        }
                        if d || sampled {
                            evs.push(json!({"ev":"stream","s":s,"filters_from":how,"paced_producer":is_paced}));
                            for (p, i) in &ob.fwd {
                                evs.push(json!({"ev":"fwd","pos":p,"intact":i}));
                            }
                            match &ob.ret {
                                Ok((a, b)) => evs.push(json!({"ev":"send","passed":a,"filtered":b})),
                                Err(e) => evs.push(json!({"ev":"error","msg":e})),
                            }
                        }
                        o.bump("stream_runs", 1);
                        o.bump("stream_msgs", s.len() as u64);
                        o.bump("stream_forwarded", ob.fwd.len() as u64);
                    }
                }
            }
        }
    }
    // the stream filter whose consumer hangs up after k messages (k = 0, 1, 2 by case): no prediction, always decided by TLC
    if failed.is_none() && (sampled || pred.is_none()) && !streams.is_empty() && !streams[0].is_empty() {
        if let (Ok(filters), how) = filter_list(fs, dlf_style) {
            let k = (streams[0].len() + fs.len()) % 3;
            match run_stream_hangup(&filters, &msgs, &streams[0], k) {
                Err(p) => evs.push(json!({"ev":"panic","msg":p})),
                Ok(ob) => {
                    evs.push(json!({"ev":"stream","s":streams[0],"filters_from":how,"paced_producer":false,"hangup_after":k}));
                    for (p, i) in &ob.fwd {
                        evs.push(json!({"ev":"fwd","pos":p,"intact":i}));
                    }
                    match (&ob.ret, ob.refused) {
                        (Ok((a, b)), false) => evs.push(json!({"ev":"send","passed":a,"filtered":b})),
                        (Ok((a, b)), true) => evs.push(json!({"ev":"hangup_ok","passed":a,"filtered":b,"left":ob.left})),
                        (Err(_), true) => evs.push(json!({"ev":"hangup_err","left":ob.left})),
                        (Err(e), false) => evs.push(json!({"ev":"error","msg":e})),
                    }
                    o.bump(if ob.refused { "hangup_runs_refused" } else { "hangup_runs_not_reached" }, 1);
                }
            }
        }
    }
    // the remote stream front-end
    if let Some((si, command, portions)) = extra.ctx {
        let s = &streams[si];
        let name = if command == "stream" { "stream_context_stream" } else { "stream_context_query" };
        // one call of process_stream_new_msgs looks at all pending messages, or at 4 / 1 of them (max_chunk_size)
        let chunk = [3_000_000usize, 4, 1][(case as usize / 3) % 3];
        o.bump(&format!("stream_context_runs_chunk_{}", chunk), 1);
        match run_ctx_stream(fs, command, &msgs, s, portions, chunk) {
            Ok(inside) => {
                for (p, kept) in inside.iter().enumerate() {
                    let k = s[p] - 1;
                    let d = pred.map(|pr| pr.keep_ev[k] != *kept).unwrap_or(true);
                    if d || sampled {
                        evs.push(json!({"ev":"set","impl":name,"mi":k + 1,"kept":kept,"pred":pred.map(|pr| pr.keep_ev[k] as i32).unwrap_or(-1),"portions":portions,"max_chunk_size":chunk}));
                    }
                    if pred.is_some() {
                        if d { drift += 1 } else { fast += 1 }
                    }
                }
                o.bump("stream_context_runs", 1);
                o.bump(&format!("stream_context_runs_{}_portions", portions), 1);
                o.bump(if fs.iter().any(|f| f.enabled && f.kind == 3) && inert_only(fs) { "stream_context_runs_event_filters_only" } else { "stream_context_runs_other_sets" }, 1);
                o.bump("set_decisions", inside.len() as u64);
            }
            Err(e) => evs.push(json!({"ev":"error","msg":e})),
        }
    }
    // the remote stream front-end with ONE huge backlog (more than 2^17 messages in a single call, as for a stream requested on a large,
    // already loaded file): quarters that are dominated by one message alternate with quarters that cycle through all messages, so
    // that neighbouring parts of the backlog hold very different numbers of matches.  Summary per message of the case.
    static BIG_RUNS: std::sync::atomic::AtomicUsize = std::sync::atomic::AtomicUsize::new(0);
    if failed.is_none() && (sampled || pred.is_none()) && !msgs.is_empty() && !fs.is_empty()
        && BIG_RUNS.fetch_add(1, std::sync::atomic::Ordering::SeqCst) < o.big_backlog_cap
    {
        let m = msgs.len();
        let n = 140_000usize;
        let q = n / 4;
        let s: Vec<usize> = (0..n).map(|i| match i / q {
            0 => if i % 997 == 0 { 1 + (i / 997) % m } else { 1 },
            2 => if i % 499 == 0 { 1 + (i / 499) % m } else { m },
            _ => 1 + i % m,
        }).collect();
        let command = ["stream", "query"][fs.len() % 2];
        let name = if command == "stream" { "stream_context_stream" } else { "stream_context_query" };
        match run_ctx_stream(fs, command, &msgs, &s, 1, 1 << 20) {
            Ok(inside) => {
                let mut per = vec![(0u64, 0u64); m];
                for (p, x) in inside.iter().enumerate() {
                    if *x { per[s[p] - 1].0 += 1 } else { per[s[p] - 1].1 += 1 }
                }
                evs.push(json!({"ev":"set_big","impl":name,"n":n,"per":per.iter().enumerate().map(|(k, c)| json!({"mi":k + 1,"kept":c.0,"dropped":c.1})).collect::<Vec<_>>()}));
                o.bump("big_backlog_runs", 1);
            }
            Err(e) => evs.push(json!({"ev":"error","msg":format!("big backlog ({} messages in one call): {}", n, e.chars().take(300).collect::<String>())})),
        }
    }
    // the export plugin
    let mut xmsgs_hdr: Option<&[AMsg]> = None;
    if let Some((xmsgs, xs, c, keep, lct, file)) = extra.export {
        xmsgs_hdr = Some(xmsgs);
        match run_export(fs, xmsgs, xs, keep, lct, &file) {
            Ok(ob) => {
                let pos: Vec<usize> = ob.fwd.iter().map(|x| x.0).collect();
                let intact = ob.fwd.iter().all(|x| x.1);
                let d = match pred {
                    Some(pr) => {
                        let want: Vec<usize> = (1..=xs.len()).filter(|p| pr.xkeep[c][xs[*p - 1] - 1]).collect();
                        !(pos == want && intact && ob.exported == pos.len() as i64)
                    }
                    None => true,
                };
                if pred.is_some() {
                    if d { drift += 1 } else { fast += 1 }
                }
                if d || sampled {
                    evs.push(json!({"ev":"export","s":xs,"keep_lcs":keep}));
                    for (p, i) in &ob.fwd {
                        evs.push(json!({"ev":"xfwd","pos":p,"intact":i}));
                    }
                    evs.push(json!({"ev":"xend","exported":ob.exported}));
                }
                o.bump("export_runs", 1);
                o.bump(if keep.is_empty() { "export_runs_without_lifecycles_to_keep" } else { "export_runs_with_lifecycles_to_keep" }, 1);
                if !keep.is_empty() && fs.iter().any(|f| f.enabled && f.kind == 1 && f.lcs.k == "list" && !f.lcs.ids.is_empty()) {
                    o.bump("export_runs_lifecycles_to_keep_and_negative_filter_with_lifecycles", 1);
                }
                o.bump("export_msgs", xs.len() as u64);
                o.bump("export_exported", ob.fwd.len() as u64);
            }
            Err(e) => evs.push(json!({"ev":"error","msg":e})),
        }
    }
    o.bump("drift", drift);
    o.bump("fast_path", fast);
    let deviates = !evs.is_empty() || failed.is_some();
    let admitted = if deviates && pred.is_some() && !sampled {
        o.deviating += 1;
        if o.deviating_cap == 0 || o.deviating <= o.deviating_cap {
            true
        } else {
            o.bump("deviating_cases_not_written_cap", 1);
            false
        }
    } else {
        true
    };
    if admitted && (deviates || sampled) {
        let mut hdr = json!({"F":fs,"msgs":amsgs,"src":src});
        if let Some(x) = xmsgs_hdr {
            hdr["xmsgs"] = json!(x);
        }
        o.t.ev(json!({"ev":"reset","case":case,"hdr":hdr}));
        o.bump("slow_path", evs.len() as u64);
        for e in evs {
            o.t.ev(e);
        }
        match failed {
            Some(e) => o.t.ev(json!({"ev":"loaderr","msg":e})),
            None => o.t.ev(json!({"ev":"end"})),
        }
        o.cases_written += 1;
    }
}

fn main() {
    quiet_panics();
    let a = Args::from_env();
    let mut o = Out { t: Trace::create(&a.str("--out", "trace.ndjson")), case: 0, cases_written: 0, deviating_cap: a.num("--deviating-cap", 0), big_backlog_cap: a.num("--big-backlog", 24) as usize, deviating: 0, stats: Default::default() };
    let mut rng = Rng::new(a.num("--seed", 1));
    let sample = a.num("--sample", 200);
    let tmp = a.str("--tmp", ".");
    let lct = lc_table();
    if let (Some(tab), Some(file)) = (a.get("--tables"), a.get("--scenarios")) {
        let tab: Value = serde_json::from_str(&std::fs::read_to_string(tab).expect("tables")).expect("tables json");
        let pool: Vec<AFilter> = serde_json::from_value(tab["pool"].clone()).expect("pool");
        let amsgs: Vec<AMsg> = serde_json::from_value(tab["msgs"].clone()).expect("msgs");
        let streams: Vec<Vec<usize>> = serde_json::from_value(tab["streams"].clone()).expect("streams");
        let xmsgs: Vec<AMsg> = serde_json::from_value(tab["xmsgs"].clone()).expect("xmsgs");
        let xstream: Vec<usize> = serde_json::from_value(tab["xstream"].clone()).expect("xstream");
        let xkeepopts: Vec<Vec<u32>> = serde_json::from_value(tab["xkeepopts"].clone()).expect("xkeepopts");
        // the stream that holds every message once is the one fed through the remote stream context
        let ctx_stream = streams.iter().position(|st| st.len() == amsgs.len() && st.iter().collect::<HashSet<_>>().len() == amsgs.len()).expect("a stream with every message once");
        let export_every = a.num("--export-every", 1) as usize;
        let lines = |file: &str| std::io::BufReader::new(std::fs::File::open(file).expect("open scenarios")).lines().map(|l| l.unwrap()).filter(|l| !l.trim().is_empty());
        let total = lines(file).count();
        let mut sampled: HashSet<usize> = HashSet::new();
        while (sampled.len() as u64) < sample.min(total as u64) {
            sampled.insert(rng.below(total as u64) as usize);
        }
        // paced-producer runs (pre-pass, many in parallel because they mostly sleep): every set without an enabled
        // positive/negative filter and every `paced_every`-th other set, on the stream `paced_stream`
        let paced_every = a.num("--paced-every", 10) as usize;
        let paced_stream = (a.num("--paced-stream", streams.len() as u64) as usize).min(streams.len()) - 1;
        let dms: Vec<DltMessage> = amsgs.iter().enumerate().map(|(i, m)| mk_dlt_msg(i as u32 + 1, m)).collect();
        let style_of = |i: usize| [2u32, 0, 1, 2][i % 4];
        let mut jobs: Vec<(usize, Vec<Filter>)> = Vec::new();
        if paced_every > 0 {
            for (i, l) in lines(file).enumerate() {
                let s: Value = serde_json::from_str(&l).expect("scenario");
                let items: Vec<usize> = serde_json::from_value(s["items"].clone()).expect("items");
                let fs: Vec<AFilter> = items.iter().map(|j| pool[*j - 1].clone()).collect();
                if inert_only(&fs) || i % paced_every == 0 {
                    if let (Ok(list), _) = filter_list(&fs, style_of(i)) {
                        jobs.push((i, list));
                    }
                }
            }
        }
        let mut paced_obs: std::collections::HashMap<usize, Result<StreamObs, String>> = Default::default();
        {
            let nthreads = 32usize;
            let jobs = std::sync::Mutex::new(jobs);
            let res = std::sync::Mutex::new(Vec::new());
            std::thread::scope(|sc| {
                for _ in 0..nthreads {
                    sc.spawn(|| loop {
                        let job = jobs.lock().unwrap().pop();
                        match job {
                            Some((i, list)) => {
                                let ob = run_stream_paced(list, &dms, &streams[paced_stream]);
                                res.lock().unwrap().push((i, ob));
                            }
                            None => break,
                        }
                    });
                }
            });
            for (i, ob) in res.into_inner().unwrap() {
                paced_obs.insert(i, ob);
            }
        }
        for (i, l) in lines(file).enumerate() {
            let s: Value = serde_json::from_str(&l).expect("scenario");
            let items: Vec<usize> = serde_json::from_value(s["items"].clone()).expect("items");
            let fs: Vec<AFilter> = items.iter().map(|j| pool[*j - 1].clone()).collect();
            let pred = Pred {
                xkeep: serde_json::from_value(s["xkeep"].clone()).expect("xkeep"),
                keep_ev: serde_json::from_value(s["keepEv"].clone()).expect("keepEv"),
                fwd: s["fwd"].as_array().expect("fwd").iter().map(|x| {
                    (serde_json::from_value(x["pos"].clone()).expect("pos"), x["passed"].as_u64().unwrap() as usize, x["filtered"].as_u64().unwrap() as usize)
                }).collect(),
            };
            let paced = paced_obs.remove(&i).map(|ob| (paced_stream, ob));
            let c = i % xkeepopts.len();
            let has_lcs = fs.iter().any(|f| f.lcs.k == "list");
            let extra = Extra {
                ctx: Some((ctx_stream, ["stream", "query"][i % 2], 1 + (i / 2) % 3)),
                export: if export_every > 0 && (has_lcs || i % export_every == 0) { Some((&xmsgs[..], &xstream[..], c, &xkeepopts[c][..], &lct, format!("{}/export_{}.dlt", tmp, i))) } else { None },
            };
            run_case(&mut o, &fs, &amsgs, &streams, Some(&pred), sampled.contains(&i), style_of(i), "tlc", paced, extra);
            o.bump("scenarios", 1);
        }
    }
    let nchars = a.num("--nchars", 3);
    let max_len = a.num("--max-len", 40);
    for ri in 0..a.num("--random", 0) {
        let mut fs: Vec<AFilter> = Vec::new();
        for kind in 0..4u32 {
            for _ in 0..rng.below(4) {
                let mut f = gen_filter(&mut rng, "json", nchars);
                f.kind = kind;
                fs.push(f);
            }
        }
        if ri == 0 {
            fs.clear(); // the first random case is the empty set (its stream request has no "filters" key)
        } else if rng.chance(1, 12) {
            // a dlt-convert list: some positive apid/ctid pairs
            fs = (0..rng.range(1, 5)).map(|_| gen_filter(&mut rng, "conv", 2)).collect();
        }
        // shuffle: the kinds are interleaved in the list
        for i in (1..fs.len()).rev() {
            let j = rng.below(i as u64 + 1) as usize;
            fs.swap(i, j);
        }
        // a third of the sets has id and type criteria only (the sets for which a decision per address looks tempting)
        if rng.chance(1, 3) {
            for f in fs.iter_mut() {
                f.pay = no_pay();
                f.lmin = -1;
                f.lmax = -1;
                f.lcs = no_lcs();
                if rng.chance(1, 2) {
                    f.typ = if rng.chance(1, 2) { TypeCrit { k: "mstp".into(), v: *rng.pick(&[0u32, 3]), mask: 0 } } else { TypeCrit { k: "vmm".into(), v: *rng.pick(&[0x41u32, 0x40, 0x26, 0x16, 0x06, 0x01]), mask: 0 } };
                }
            }
        }
        let nm = rng.range(4, 12) as usize;
        let mut amsgs: Vec<AMsg> = Vec::new();
        for _ in 0..nm {
            let mut m = if fs.is_empty() { gen_msg(&mut rng, &empty_filter(0), nchars) } else { let f = rng.pick(&fs).clone(); gen_msg(&mut rng, &f, nchars) };
            // half of the messages share the address (ecu, apid, ctid) with an earlier one and differ in other fields
            if !amsgs.is_empty() && rng.chance(1, 2) {
                let o: AMsg = rng.pick(&amsgs).clone();
                let any = rng.below(256) as u32;
                let vmm = if o.ext { *rng.pick(&[0x41u32, 0x40, 0x26, 0x16, 0x06, 0x01, m.vmm, any]) } else { 0 };
                if o.ext && m.ext && rng.chance(1, 2) {
                    // ... or shares only some of the id fields (same apid/ctid on another ecu, same ecu/ctid with another apid, ...)
                    let keep = rng.range(1, 6);
                    m = AMsg { ecu: if keep & 1 != 0 { o.ecu } else { m.ecu }, apid: if keep & 2 != 0 { o.apid } else { m.apid },
                               ctid: if keep & 4 != 0 { o.ctid } else { m.ctid }, vmm: o.vmm, text: o.text, lc: o.lc, ..m };
                } else if !o.ext && !m.ext && rng.chance(1, 2) {
                    m = AMsg { text: o.text, lc: o.lc, ..m }; // no extended header, another ecu, everything else equal
                } else {
                    m = AMsg { ecu: o.ecu, ext: o.ext, apid: o.apid, ctid: o.ctid, vmm, ..m };
                }
            }
            amsgs.push(m);
        }
        // streams with runs: the next message often shares the address with the previous one
        let streams: Vec<Vec<usize>> = (0..2).map(|_| {
            let mut st: Vec<usize> = Vec::new();
            for _ in 0..rng.range(0, max_len) {
                let same: Vec<usize> = match st.last() {
                    Some(l) => (1..=nm).filter(|k| { let (a, b) = (&amsgs[*k - 1], &amsgs[*l - 1]); a.ecu == b.ecu && a.ext == b.ext && a.apid == b.apid && a.ctid == b.ctid }).collect(),
                    None => vec![],
                };
                if !same.is_empty() && rng.chance(1, 2) { st.push(*rng.pick(&same)); } else { st.push(rng.range(1, nm as u64) as usize); }
            }
            st
        }).collect();
        let paced = if (ri as u64) < a.num("--paced-random", 0) && !streams[0].is_empty() {
            let dms: Vec<DltMessage> = amsgs.iter().enumerate().map(|(i, m)| mk_dlt_msg(i as u32 + 1, m)).collect();
            filter_list(&fs, 0).0.ok().map(|list| (0usize, run_stream_paced(list, &dms, &streams[0])))
        } else {
            None
        };
        let portions = 1 + (ri as usize) % 3;
        let extra = Extra { ctx: if streams[0].is_empty() { None } else { Some((0, ["stream", "query"][(ri as usize) % 2], portions)) }, export: None };
        run_case(&mut o, &fs, &amsgs, &streams, None, true, 0, "random", paced, extra);
        o.bump("random_cases", 1);
    }
    o.t.flush();
    println!("{}", json!({"cases": o.case, "cases_written": o.cases_written, "lines": o.t.lines, "stats": o.stats}));
}
