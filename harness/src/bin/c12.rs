//! C12 driver: filter sets on the REAL set matcher (match_filters on containers built by StreamContext::from and like
//! the search/export code) and on the REAL stream filter (filter_as_streams through std::sync::mpsc channels).
//!
//! Scenarios come from TLC (spec/mc/MCFilterSet.tla: item numbers of a filter set + predicted Keep per message and
//! predicted forwarding per stream) or from the seeded random generator (no prediction). The only comparison done here
//! is data equality between an observation and TLC's prediction; cases that differ, a random sample of the others and
//! all random cases are written to the trace and decided by TLC (spec/FilterSetTrace.tla).
#[path = "c11/abs.rs"]
mod abs;
use abs::*;
use adlt::dlt::DltMessage;
use adlt::filter::functions::{filter_as_streams, filters_from_dlf};
use adlt::filter::{Filter, FilterKindContainer};
use adlt::utils::remote_utils::{match_filters, StreamContext};
use std::collections::HashSet;
use std::io::BufRead;
use std::sync::mpsc::channel;
use vh::*;

type Container = FilterKindContainer<Vec<Filter>>;

fn logger() -> slog::Logger {
    slog::Logger::root(slog::Discard, slog::o!())
}

/// container built by the remote `stream` command: StreamContext::from(JSON)
fn container_ctx(fs: &[AFilter]) -> Result<Container, String> {
    let js = json!({"window":[0,100],"filters": fs.iter().map(|f| render_json(f, true)).collect::<Vec<_>>()}).to_string();
    StreamContext::from(&logger(), "stream", &js).map(|c| c.filters).map_err(|e| format!("StreamContext::from failed: {}", e))
}

/// container built like the search command and the export plugin do: Filter::from_json, enabled filters only
fn container_cont(fs: &[AFilter]) -> Result<Container, String> {
    let mut c: Container = Default::default();
    for f in fs {
        let r = Filter::from_json(&render_json(f, true).to_string()).map_err(|e| format!("{:?}", e))?;
        if r.enabled {
            let k = r.kind;
            c[k].push(r);
        }
    }
    Ok(c)
}

/// the element kinds a minimally rendered DLF filter writes
fn dlf_elements(f: &AFilter) -> Vec<&'static str> {
    let mut v = Vec::new();
    if f.ecu.k != "none" { v.push("ecu"); }
    if f.apid.k != "none" { v.push("apid"); }
    if f.ctid.k != "none" { v.push("ctid"); }
    if f.typ.k != "none" { v.push("ctrl"); }
    if f.pay.k != "none" { v.push("pay"); }
    if f.lmin >= 0 { v.push("lmin"); }
    if f.lmax >= 0 { v.push("lmax"); }
    v
}

/// the filter list `adlt convert` passes to filter_as_streams: a DLF file if every filter can be written in one (and
/// the case asks for it), else JSON. dlf_style 1: every filter with the full element set (like dlt-viewer writes it);
/// 2: every filter with the elements of its own criteria only (a reduced / hand-written file), so that a later filter
/// omits elements an earlier one has
fn filter_list(fs: &[AFilter], dlf_style: u32) -> (Result<Vec<Filter>, String>, &'static str) {
    let dlf_ok = fs.iter().all(|f| !f.not && f.lcs.k == "none" && f.ecu.k != "re" && (f.typ.k == "none" || (f.typ.k == "mstp" && f.typ.v == 3))
        && !(f.pay.k == "sub" && !f.pay.ic)); // a literal case-sensitive payload text is left to C11 (known finding there)
    if dlf_style > 0 && dlf_ok && !fs.is_empty() {
        let refs: Vec<&AFilter> = fs.iter().collect();
        let minimal = dlf_style == 2;
        let t = render_dlf_file("", &refs, if minimal { DlfStyle::MinimalFlags } else { DlfStyle::Full });
        let later_omits = (1..fs.len()).any(|j| (0..j).any(|i| dlf_elements(&fs[i]).iter().any(|e| !dlf_elements(&fs[j]).contains(e))));
        let how = if !minimal { "dlf_full" } else if later_omits { "dlf_minimal_later_filter_omits_elements" } else { "dlf_minimal" };
        (filters_from_dlf(t.as_bytes()).map_err(|e| format!("{:?}", e)), how)
    } else {
        (fs.iter().map(|f| Filter::from_json(&render_json(f, true).to_string()).map_err(|e| format!("{:?}", e))).collect(), "json")
    }
}

struct StreamObs {
    fwd: Vec<(usize, bool)>, // (position 1-based or 0, intact)
    ret: Result<(usize, usize), String>,
}

fn run_stream(filters: &[Filter], msgs: &[DltMessage], s: &[usize]) -> Result<StreamObs, String> {
    let input: Vec<DltMessage> = s.iter().enumerate().map(|(p, k)| {
        let mut m = msgs[*k - 1].clone();
        m.index = (p + 1) as u32;
        m
    }).collect();
    let orig = input.clone();
    catch(std::panic::AssertUnwindSafe(move || {
        let (tx, rx) = channel();
        let (tx2, rx2) = channel();
        for m in input {
            tx.send(m).unwrap();
        }
        drop(tx);
        let ret = filter_as_streams(filters, &rx, &|m| tx2.send(m)).map_err(|e| format!("{:?}", e));
        drop(tx2);
        let mut fwd = Vec::new();
        for m in rx2.iter() {
            let p = m.index as usize;
            if p >= 1 && p <= orig.len() {
                fwd.push((p, orig[p - 1] == m));
            } else {
                fwd.push((0, false));
            }
        }
        StreamObs { fwd, ret }
    }))
}

/// second mode "paced producer": filter_as_streams runs on its own thread while the producer pauses before the first
/// and after each of the first messages, sends the rest at once and then drops the sender. The result of correct code
/// does not depend on the pacing; a filter that stops when its input is momentarily empty loses messages here.
const PACE_MS: u64 = 15;
const PACED_PAUSES: usize = 3;
fn run_stream_paced(filters: Vec<Filter>, msgs: &[DltMessage], s: &[usize]) -> Result<StreamObs, String> {
    let input: Vec<DltMessage> = s.iter().enumerate().map(|(p, k)| {
        let mut m = msgs[*k - 1].clone();
        m.index = (p + 1) as u32;
        m
    }).collect();
    let orig = input.clone();
    let (tx, rx) = channel();
    let (tx2, rx2) = channel();
    let h = std::thread::spawn(move || {
        let r = catch(std::panic::AssertUnwindSafe(|| filter_as_streams(&filters, &rx, &|m| tx2.send(m)).map_err(|e| format!("{:?}", e))));
        drop(tx2);
        r
    });
    std::thread::sleep(std::time::Duration::from_millis(PACE_MS));
    for (p, m) in input.into_iter().enumerate() {
        let _ = tx.send(m); // a receiver that is gone already shows up as missing messages
        if p < PACED_PAUSES {
            std::thread::sleep(std::time::Duration::from_millis(PACE_MS));
        }
    }
    drop(tx);
    let ret = match h.join() {
        Ok(Ok(r)) => r,
        Ok(Err(p)) => return Err(p),
        Err(_) => return Err("filter thread panicked".to_string()),
    };
    let mut fwd = Vec::new();
    for m in rx2.iter() {
        let p = m.index as usize;
        if p >= 1 && p <= orig.len() {
            fwd.push((p, orig[p - 1] == m));
        } else {
            fwd.push((0, false));
        }
    }
    Ok(StreamObs { fwd, ret })
}

/// no enabled positive or negative filter: only disabled, marker and event filters (or no filter at all)
fn inert_only(fs: &[AFilter]) -> bool {
    !fs.iter().any(|f| f.enabled && (f.kind == 0 || f.kind == 1))
}

struct Out {
    t: Trace,
    case: u64,
    cases_written: u64,
    stats: std::collections::BTreeMap<String, u64>,
}
impl Out {
    fn bump(&mut self, k: &str, n: u64) {
        *self.stats.entry(k.to_string()).or_insert(0) += n;
    }
}

struct Pred {
    keep_ev: Vec<bool>,
    fwd: Vec<(Vec<usize>, usize, usize)>, // per stream: positions, passed, filtered
}

fn run_case(o: &mut Out, fs: &[AFilter], amsgs: &[AMsg], streams: &[Vec<usize>], pred: Option<&Pred>, sampled: bool, dlf_style: u32, src: &str, paced: Option<(usize, Result<StreamObs, String>)>) {
    let case = o.case;
    o.case += 1;
    let msgs: Vec<DltMessage> = amsgs.iter().enumerate().map(|(i, m)| mk_dlt_msg(i as u32 + 1, m)).collect();
    let mut evs: Vec<Value> = Vec::new();
    let mut drift = 0u64;
    let mut fast = 0u64;
    let mut failed: Option<String> = None;
    // the set matcher on both containers
    for (name, built) in [("match_filters_ctx", catch(std::panic::AssertUnwindSafe(|| container_ctx(fs)))), ("match_filters_cont", catch(std::panic::AssertUnwindSafe(|| container_cont(fs))))] {
        let c = match built {
            Ok(Ok(c)) => c,
            Ok(Err(e)) | Err(e) => {
                failed = Some(format!("{}: {}", name, e));
                continue;
            }
        };
        for (k, m) in msgs.iter().enumerate() {
            match catch(std::panic::AssertUnwindSafe(|| match_filters(m, &c))) {
                Ok(kept) => {
                    let d = pred.map(|p| p.keep_ev[k] != kept).unwrap_or(true);
                    if d || sampled {
                        evs.push(json!({"ev":"set","impl":name,"mi":k + 1,"kept":kept,"pred":pred.map(|p| p.keep_ev[k] as i32).unwrap_or(-1)}));
                    }
                    if pred.is_some() {
                        if d { drift += 1 } else { fast += 1 }
                    }
                }
                Err(p) => evs.push(json!({"ev":"panic","msg":p})),
            }
        }
        o.bump("set_decisions", msgs.len() as u64);
    }
    // the stream filter
    let (list, how) = filter_list(fs, dlf_style);
    o.bump(&format!("stream_filters_from_{}", how), 1);
    match list {
        Err(e) => failed = Some(format!("filter list ({}): {}", how, e)),
        Ok(filters) => {
            let mut runs: Vec<(usize, bool, Result<StreamObs, String>)> = streams.iter().enumerate().map(|(si, s)| (si, false, run_stream(&filters, &msgs, s))).collect();
            if let Some((si, ob)) = paced {
                o.bump(if inert_only(fs) { "paced_runs_inert_only_sets" } else { "paced_runs_active_sets" }, 1);
                runs.push((si, true, ob));
            }
            for (si, is_paced, run) in runs {
                let s = &streams[si];
                match run {
                    Err(p) => evs.push(json!({"ev":"panic","msg":p})),
                    Ok(ob) => {
                        let pos: Vec<usize> = ob.fwd.iter().map(|x| x.0).collect();
                        let intact = ob.fwd.iter().all(|x| x.1);
                        let d = match (pred, &ob.ret) {
                            (Some(p), Ok((a, b))) => !(pos == p.fwd[si].0 && intact && *a == p.fwd[si].1 && *b == p.fwd[si].2),
                            _ => true,
                        };
                        if pred.is_some() {
                            if d { drift += 1 } else { fast += 1 }
                        }
                        if d || sampled {
                            evs.push(json!({"ev":"stream","s":s,"filters_from":how,"paced_producer":is_paced}));
                            for (p, i) in &ob.fwd {
                                evs.push(json!({"ev":"fwd","pos":p,"intact":i}));
                            }
                            match &ob.ret {
                                Ok((a, b)) => evs.push(json!({"ev":"send","passed":a,"filtered":b})),
                                Err(e) => evs.push(json!({"ev":"error","msg":e})),
                            }
                        }
                        o.bump("stream_runs", 1);
                        o.bump("stream_msgs", s.len() as u64);
                        o.bump("stream_forwarded", ob.fwd.len() as u64);
                    }
                }
            }
        }
    }
    o.bump("drift", drift);
    o.bump("fast_path", fast);
    if !evs.is_empty() || failed.is_some() || sampled {
        o.t.ev(json!({"ev":"reset","case":case,"hdr":{"F":fs,"msgs":amsgs,"src":src}}));
        o.bump("slow_path", evs.len() as u64);
        for e in evs {
            o.t.ev(e);
        }
        match failed {
            Some(e) => o.t.ev(json!({"ev":"loaderr","msg":e})),
            None => o.t.ev(json!({"ev":"end"})),
        }
        o.cases_written += 1;
    }
}

fn main() {
    quiet_panics();
    let a = Args::from_env();
    let mut o = Out { t: Trace::create(&a.str("--out", "trace.ndjson")), case: 0, cases_written: 0, stats: Default::default() };
    let mut rng = Rng::new(a.num("--seed", 1));
    let sample = a.num("--sample", 200);
    if let (Some(tab), Some(file)) = (a.get("--tables"), a.get("--scenarios")) {
        let tab: Value = serde_json::from_str(&std::fs::read_to_string(tab).expect("tables")).expect("tables json");
        let pool: Vec<AFilter> = serde_json::from_value(tab["pool"].clone()).expect("pool");
        let amsgs: Vec<AMsg> = serde_json::from_value(tab["msgs"].clone()).expect("msgs");
        let streams: Vec<Vec<usize>> = serde_json::from_value(tab["streams"].clone()).expect("streams");
        let lines = |file: &str| std::io::BufReader::new(std::fs::File::open(file).expect("open scenarios")).lines().map(|l| l.unwrap()).filter(|l| !l.trim().is_empty());
        let total = lines(file).count();
        let mut sampled: HashSet<usize> = HashSet::new();
        while (sampled.len() as u64) < sample.min(total as u64) {
            sampled.insert(rng.below(total as u64) as usize);
        }
        // paced-producer runs (pre-pass, many in parallel because they mostly sleep): every set without an enabled
        // positive/negative filter and every `paced_every`-th other set, on the stream `paced_stream`
        let paced_every = a.num("--paced-every", 10) as usize;
        let paced_stream = (a.num("--paced-stream", streams.len() as u64) as usize).min(streams.len()) - 1;
        let dms: Vec<DltMessage> = amsgs.iter().enumerate().map(|(i, m)| mk_dlt_msg(i as u32 + 1, m)).collect();
        let style_of = |i: usize| [2u32, 0, 1, 2][i % 4];
        let mut jobs: Vec<(usize, Vec<Filter>)> = Vec::new();
        if paced_every > 0 {
            for (i, l) in lines(file).enumerate() {
                let s: Value = serde_json::from_str(&l).expect("scenario");
                let items: Vec<usize> = serde_json::from_value(s["items"].clone()).expect("items");
                let fs: Vec<AFilter> = items.iter().map(|j| pool[*j - 1].clone()).collect();
                if inert_only(&fs) || i % paced_every == 0 {
                    if let (Ok(list), _) = filter_list(&fs, style_of(i)) {
                        jobs.push((i, list));
                    }
                }
            }
        }
        let mut paced_obs: std::collections::HashMap<usize, Result<StreamObs, String>> = Default::default();
        {
            let nthreads = 32usize;
            let jobs = std::sync::Mutex::new(jobs);
            let res = std::sync::Mutex::new(Vec::new());
            std::thread::scope(|sc| {
                for _ in 0..nthreads {
                    sc.spawn(|| loop {
                        let job = jobs.lock().unwrap().pop();
                        match job {
                            Some((i, list)) => {
                                let ob = run_stream_paced(list, &dms, &streams[paced_stream]);
                                res.lock().unwrap().push((i, ob));
                            }
                            None => break,
                        }
                    });
                }
            });
            for (i, ob) in res.into_inner().unwrap() {
                paced_obs.insert(i, ob);
            }
        }
        for (i, l) in lines(file).enumerate() {
            let s: Value = serde_json::from_str(&l).expect("scenario");
            let items: Vec<usize> = serde_json::from_value(s["items"].clone()).expect("items");
            let fs: Vec<AFilter> = items.iter().map(|j| pool[*j - 1].clone()).collect();
            let pred = Pred {
                keep_ev: serde_json::from_value(s["keepEv"].clone()).expect("keepEv"),
                fwd: s["fwd"].as_array().expect("fwd").iter().map(|x| {
                    (serde_json::from_value(x["pos"].clone()).expect("pos"), x["passed"].as_u64().unwrap() as usize, x["filtered"].as_u64().unwrap() as usize)
                }).collect(),
            };
            let paced = paced_obs.remove(&i).map(|ob| (paced_stream, ob));
            run_case(&mut o, &fs, &amsgs, &streams, Some(&pred), sampled.contains(&i), style_of(i), "tlc", paced);
            o.bump("scenarios", 1);
        }
    }
    let nchars = a.num("--nchars", 3);
    let max_len = a.num("--max-len", 40);
    for ri in 0..a.num("--random", 0) {
        let mut fs: Vec<AFilter> = Vec::new();
        for kind in 0..4u32 {
            for _ in 0..rng.below(4) {
                let mut f = gen_filter(&mut rng, "json", nchars);
                f.kind = kind;
                fs.push(f);
            }
        }
        // shuffle: the kinds are interleaved in the list
        for i in (1..fs.len()).rev() {
            let j = rng.below(i as u64 + 1) as usize;
            fs.swap(i, j);
        }
        // a third of the sets has id and type criteria only (the sets for which a decision per address looks tempting)
        if rng.chance(1, 3) {
            for f in fs.iter_mut() {
                f.pay = no_pay();
                f.lmin = -1;
                f.lmax = -1;
                f.lcs = no_lcs();
                if rng.chance(1, 2) {
                    f.typ = if rng.chance(1, 2) { TypeCrit { k: "mstp".into(), v: *rng.pick(&[0u32, 3]), mask: 0 } } else { TypeCrit { k: "vmm".into(), v: *rng.pick(&[0x41u32, 0x40, 0x26, 0x16, 0x06, 0x01]), mask: 0 } };
                }
            }
        }
        let nm = rng.range(4, 12) as usize;
        let mut amsgs: Vec<AMsg> = Vec::new();
        for _ in 0..nm {
            let mut m = if fs.is_empty() { gen_msg(&mut rng, &empty_filter(0), nchars) } else { let f = rng.pick(&fs).clone(); gen_msg(&mut rng, &f, nchars) };
            // half of the messages share the address (ecu, apid, ctid) with an earlier one and differ in other fields
            if !amsgs.is_empty() && rng.chance(1, 2) {
                let o: AMsg = rng.pick(&amsgs).clone();
                let any = rng.below(256) as u32;
                let vmm = if o.ext { *rng.pick(&[0x41u32, 0x40, 0x26, 0x16, 0x06, 0x01, m.vmm, any]) } else { 0 };
                if o.ext && m.ext && rng.chance(1, 2) {
                    // ... or shares only some of the id fields (same apid/ctid on another ecu, same ecu/ctid with another apid, ...)
                    let keep = rng.range(1, 6);
                    m = AMsg { ecu: if keep & 1 != 0 { o.ecu } else { m.ecu }, apid: if keep & 2 != 0 { o.apid } else { m.apid },
                               ctid: if keep & 4 != 0 { o.ctid } else { m.ctid }, vmm: o.vmm, text: o.text, lc: o.lc, ..m };
                } else if !o.ext && !m.ext && rng.chance(1, 2) {
                    m = AMsg { text: o.text, lc: o.lc, ..m }; // no extended header, another ecu, everything else equal
                } else {
                    m = AMsg { ecu: o.ecu, ext: o.ext, apid: o.apid, ctid: o.ctid, vmm, ..m };
                }
            }
            amsgs.push(m);
        }
        // streams with runs: the next message often shares the address with the previous one
        let streams: Vec<Vec<usize>> = (0..2).map(|_| {
            let mut st: Vec<usize> = Vec::new();
            for _ in 0..rng.range(0, max_len) {
                let same: Vec<usize> = match st.last() {
                    Some(l) => (1..=nm).filter(|k| { let (a, b) = (&amsgs[*k - 1], &amsgs[*l - 1]); a.ecu == b.ecu && a.ext == b.ext && a.apid == b.apid && a.ctid == b.ctid }).collect(),
                    None => vec![],
                };
                if !same.is_empty() && rng.chance(1, 2) { st.push(*rng.pick(&same)); } else { st.push(rng.range(1, nm as u64) as usize); }
            }
            st
        }).collect();
        let paced = if (ri as u64) < a.num("--paced-random", 0) && !streams[0].is_empty() {
            let dms: Vec<DltMessage> = amsgs.iter().enumerate().map(|(i, m)| mk_dlt_msg(i as u32 + 1, m)).collect();
            filter_list(&fs, 0).0.ok().map(|list| (0usize, run_stream_paced(list, &dms, &streams[0])))
        } else {
            None
        };
        run_case(&mut o, &fs, &amsgs, &streams, None, true, 0, "random", paced);
        o.bump("random_cases", 1);
    }
    o.t.flush();
    println!("{}", json!({"cases": o.case, "cases_written": o.cases_written, "lines": o.t.lines, "stats": o.stats}));
}
