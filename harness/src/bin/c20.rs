//! C20 driver. Two modes:
//!   --mode seek     replays TLC scenarios (paths of read/seek operations with predicted results) and seeded random
//!                   operation sequences on the real SeekableChain; records read/seek/rte events.
//!   --mode extract  writes real zip files for TLC-enumerated archives x patterns, runs extract_archives /
//!                   extract_to_dir with TMPDIR inside a sentinel directory and records what was reported and
//!                   what the file system looks like afterwards.
//! The driver never computes an expectation: it compares bytes with the reference bytes (data equality) and, on the
//! fast path, an observed result with the value TLC predicted for the same scenario.
use adlt::utils::seekablechain::SeekableChain;
use adlt::utils::unzip::{extract_archives, extract_to_dir};
use std::collections::{BTreeMap, HashMap};
use std::io::{Cursor, Read, Seek, SeekFrom, Write};
use std::path::{Component, Path, PathBuf};
use std::sync::atomic::AtomicBool;
use std::sync::Arc;
use vh::*;

// ------------------------------------------------------------------------------------------------ seek mode

#[derive(Clone, Debug)]
enum Op {
    Read(usize),
    Start(u64),
    Cur(i64),
    End(i64),
    Rte,
}

/// run one operation on the chain and on nothing else; the reference is only used for data equality
fn run_ops<RS: Read + Seek>(chain: &mut SeekableChain<RS>, concat: &[u8], small: bool, next: &mut dyn FnMut(u64) -> Option<Op>) -> Vec<Value> {
    // position of the reference cursor: follows the *observed* results (k bytes read, seek target); the operation
    // generator sees it so that relative seeks stay inside [0, len] (the property's domain)
    let mut reference = Cursor::new(concat);
    let mut evs = Vec::new();
    while let Some(op) = next(reference.position()) {
        let op = &op;
        match op {
            Op::Read(n) => {
                let mut buf = vec![0u8; *n];
                let pos = reference.position() as usize;
                match chain.read(&mut buf) {
                    Ok(k) => {
                        let got = &buf[..k.min(buf.len())];
                        let hi = (pos + k).min(concat.len());
                        let want = &concat[pos.min(concat.len())..hi];
                        let eq = got == want;
                        evs.push(json!({"ev":"read","n":n,"k":k,"eq":eq,"hash":hash31(got),"ref_hash":hash31(want),
                            "data": if small { got.to_vec() } else { vec![] }}));
                        reference.set_position((pos + k) as u64);
                    }
                    Err(e) => evs.push(json!({"ev":"ioerr","op":"read","msg":e.to_string()})),
                }
            }
            Op::Start(_) | Op::Cur(_) | Op::End(_) => {
                let (from, a, sf) = match op {
                    Op::Start(p) => ("start", *p as i64, SeekFrom::Start(*p)),
                    Op::Cur(d) => ("cur", *d, SeekFrom::Current(*d)),
                    Op::End(d) => ("end", *d, SeekFrom::End(*d)),
                    _ => unreachable!(),
                };
                // the reference cursor performs the same seek (targets are inside [0, len] by construction)
                let _ = reference.seek(sf);
                match chain.seek(sf) {
                    Ok(r) => evs.push(json!({"ev":"seek","from":from,"a":a,"ok":true,"r":r})),
                    Err(e) => evs.push(json!({"ev":"seek","from":from,"a":a,"ok":false,"r":-1,"msg":e.to_string()})),
                }
            }
            Op::Rte => {
                let pos = (reference.position() as usize).min(concat.len());
                let mut v = Vec::new();
                // bounded: a stream that never signals its end (a broken implementation) must not hang or exhaust the driver; more
                // than the remaining bytes is already a contract violation, so the bound does not hide anything
                match std::io::Read::take(&mut *chain, concat.len() as u64 + 64).read_to_end(&mut v) {
                    Ok(k) => {
                        let hi = (pos + k).min(concat.len());
                        let want = &concat[pos..hi];
                        evs.push(json!({"ev":"rte","k":k,"eq": v == want,"hash":hash31(&v),"ref_hash":hash31(want)}));
                        reference.set_position((pos + k) as u64);
                    }
                    Err(e) => evs.push(json!({"ev":"ioerr","op":"rte","msg":e.to_string()})),
                }
            }
        }
    }
    evs
}

fn volumes(rng: &mut Rng, sizes: &[usize]) -> (Vec<Vec<u8>>, Vec<u8>) {
    let vols: Vec<Vec<u8>> = sizes.iter().map(|s| rng.bytes(*s)).collect();
    let concat = vols.concat();
    (vols, concat)
}

fn seek_hdr(sizes: &[usize], concat: &[u8], src: &str, backing: &str) -> Value {
    json!({"sizes":sizes,"total":concat.len(),"concat": if concat.len() <= 64 { concat.to_vec() } else { vec![] },"src":src,"backing":backing})
}

fn seek_case_cursor(vols: &[Vec<u8>], concat: &[u8], next: &mut dyn FnMut(u64) -> Option<Op>) -> Result<Vec<Value>, String> {
    let vols: Vec<Cursor<Vec<u8>>> = vols.iter().map(|v| Cursor::new(v.clone())).collect();
    catch(std::panic::AssertUnwindSafe(|| {
        let mut chain = SeekableChain::new(vols);
        run_ops(&mut chain, concat, concat.len() <= 64, next)
    }))
}

fn seek_case_files(paths: &[PathBuf], concat: &[u8], next: &mut dyn FnMut(u64) -> Option<Op>) -> Result<Vec<Value>, String> {
    let files: Vec<std::fs::File> = paths.iter().map(|p| std::fs::File::open(p).expect("open volume")).collect();
    catch(std::panic::AssertUnwindSafe(|| {
        let mut chain = SeekableChain::new(files);
        run_ops(&mut chain, concat, concat.len() <= 64, next)
    }))
}

/// replay of a TLC path: the path was planned for the positions the model predicts; once the observed reference position
/// differs from the predicted one (drift) the rest of the path is not issued (a relative seek could leave [0, len], i.e. the
/// property's domain) - the case then ends after the first diverging operation and is validated by TLC as it is
fn from_list(ops: Vec<Op>, pred: Vec<i64>) -> impl FnMut(u64) -> Option<Op> {
    let mut i = 0usize;
    let mut expect_pos: i64 = 0;
    move |pos: u64| {
        if i >= ops.len() || pos as i64 != expect_pos {
            return None;
        }
        let op = ops[i].clone();
        expect_pos = match op {
            Op::Read(_) => expect_pos + pred[i],
            _ => pred[i],
        };
        i += 1;
        Some(op)
    }
}

fn emit_case(t: &mut Trace, case: u64, hdr: Value, res: Result<Vec<Value>, String>) {
    t.ev(json!({"ev":"reset","case":case,"hdr":hdr}));
    match res {
        Ok(evs) => {
            for e in evs {
                t.ev(e);
            }
            t.ev(json!({"ev":"end"}));
        }
        Err(msg) => t.ev(json!({"ev":"panic","msg":msg})),
    }
}

/// seeded random operation generator; `pos` is the reference cursor's current position (seek targets stay in [0, total])
fn random_ops(seed: u64, total: usize, max_ops: u64, stats: std::rc::Rc<std::cell::RefCell<BTreeMap<String, u64>>>) -> impl FnMut(u64) -> Option<Op> {
    let mut rng = Rng::new(seed);
    let nops = rng.range(1, max_ops);
    let final_rte = rng.chance(1, 2);
    let mut done = 0u64;
    let total_i = total as i64;
    move |pos: u64| {
        let pos = pos as i64;
        let bump = |k: &str| *stats.borrow_mut().entry(k.to_string()).or_insert(0) += 1;
        if done == nops {
            done += 1;
            if final_rte {
                bump("op_read_to_end");
                return Some(Op::Rte);
            }
            return None;
        }
        if done > nops {
            return None;
        }
        done += 1;
        let c = rng.below(100);
        Some(if c < 50 {
            let n = match rng.below(5) {
                0 => 0,
                1 => 1,
                2 => rng.range(0, 8) as usize,
                3 => rng.range(0, total as u64 + 5) as usize,
                _ => rng.range(0, (total as u64 / 3).max(1)) as usize,
            };
            bump("op_read");
            Op::Read(n)
        } else if c < 62 {
            bump("op_seek_start");
            Op::Start(rng.range(0, total as u64))
        } else if c < 80 {
            let lo = -pos.min(if rng.chance(1, 2) { 4 } else { 1000 });
            let hi = (total_i - pos).min(if rng.chance(1, 2) { 4 } else { 1000 }).max(0);
            let d = lo + rng.below((hi - lo + 1) as u64) as i64;
            bump("op_seek_cur");
            Op::Cur(d)
        } else if c < 93 {
            let lim = if rng.chance(1, 2) { 3 } else { 1000 };
            let d = rng.range(0, (total as u64).min(lim)) as i64;
            bump("op_seek_end");
            Op::End(-d)
        } else {
            bump("op_read_to_end");
            Op::Rte
        })
    }
}

fn random_split(rng: &mut Rng, total: usize, allow_empty: bool) -> Vec<usize> {
    let k = rng.range(1, 6) as usize;
    let mut sizes = vec![0usize; k];
    if allow_empty && rng.chance(1, 2) {
        // cut points may coincide => empty volumes at the start, in the middle, at the end
        let mut cuts: Vec<usize> = (0..k - 1).map(|_| rng.range(0, total as u64) as usize).collect();
        cuts.sort();
        let mut prev = 0;
        for (i, c) in cuts.iter().enumerate() {
            sizes[i] = c - prev;
            prev = *c;
        }
        sizes[k - 1] = total - prev;
        if rng.chance(1, 3) {
            let i = rng.below(k as u64) as usize; // force one more empty volume somewhere
            sizes.insert(i, 0);
        }
    } else {
        // non-empty volumes only (if the data allows)
        let k = k.min(total.max(1));
        sizes = vec![0usize; k];
        if total >= k {
            let mut rest = total - k;
            for s in sizes.iter_mut() {
                *s = 1;
            }
            for i in 0..k - 1 {
                let x = rng.range(0, rest as u64) as usize;
                sizes[i] += x;
                rest -= x;
            }
            sizes[k - 1] += rest;
        } else {
            sizes = vec![total];
        }
    }
    sizes
}

fn parse_ops(v: &Value) -> (Vec<Op>, Vec<i64>, bool) {
    let mut ops = Vec::new();
    let mut pred = Vec::new();
    let mut all_ok = true;
    for o in v.as_array().unwrap() {
        let a = o["a"].as_i64().unwrap();
        ops.push(match o["op"].as_str().unwrap() {
            "read" => Op::Read(a as usize),
            "start" => Op::Start(a as u64),
            "cur" => Op::Cur(a),
            "end" => Op::End(a),
            x => panic!("op {}", x),
        });
        pred.push(o["r"].as_i64().unwrap());
        all_ok &= o["ok"].as_bool().unwrap();
    }
    (ops, pred, all_ok)
}

fn mode_seek(a: &Args) {
    let mut t = Trace::create(&a.str("--out", "trace.ndjson"));
    let mut rng = Rng::new(a.num("--seed", 1));
    let sample = a.num("--sample", 300);
    let mut case = 0u64;
    let (mut replayed, mut fast, mut slow, mut drift, mut kf_pred) = (0u64, 0u64, 0u64, 0u64, 0u64);
    let paths: std::rc::Rc<std::cell::RefCell<BTreeMap<String, u64>>> = Default::default();
    let bump = |k: &str| *paths.borrow_mut().entry(k.to_string()).or_insert(0) += 1;
    let mut drift_samples = Vec::new();
    if let Some(f) = a.get("--scenarios") {
        let scns = read_ndjson(f);
        let every = (scns.len() as u64 / sample.max(1)).max(1);
        for (si, scn) in scns.iter().enumerate() {
            let sizes: Vec<usize> = serde_json::from_value(scn["sizes"].clone()).unwrap();
            let (ops, pred, all_ok) = parse_ops(&scn["ops"]);
            let (vols, concat) = volumes(&mut rng, &sizes);
            let res = seek_case_cursor(&vols, &concat, &mut from_list(ops, pred.clone()));
            replayed += 1;
            // observation == prediction? (result numbers; bytes equal the reference bytes)
            let same = match &res {
                Ok(evs) => {
                    evs.len() == pred.len()
                        && evs.iter().zip(pred.iter()).all(|(e, p)| match e["ev"].as_str().unwrap() {
                            "read" => e["k"].as_i64() == Some(*p) && e["eq"].as_bool() == Some(true),
                            "seek" => e["ok"].as_bool() == Some(true) && e["r"].as_i64() == Some(*p),
                            _ => false,
                        })
                }
                Err(_) => false,
            };
            if !same {
                drift += 1;
                if drift_samples.len() < 3 {
                    drift_samples.push(json!({"scenario": scn, "observed": res.clone().unwrap_or_default()}));
                }
            }
            if !all_ok {
                kf_pred += 1;
            }
            if sizes.iter().any(|s| *s == 0) {
                bump("scn_with_empty_volume");
            }
            if same && all_ok && (si as u64 % every != 0) {
                fast += 1;
                continue;
            }
            slow += 1;
            emit_case(&mut t, case, seek_hdr(&sizes, &concat, "tlc", "cursor"), res);
            case += 1;
        }
    }
    // seeded random cases: always validated by TLC
    let n_random = a.num("--random", 0);
    let max_ops = a.num("--max-ops", 200);
    let max_total = a.num("--max-total", 300);
    let tmp = PathBuf::from(a.str("--tmp", "/verif/work/C20/tmp")).join("vol");
    let _ = std::fs::remove_dir_all(&tmp);
    std::fs::create_dir_all(&tmp).unwrap();
    for i in 0..n_random {
        let total = match rng.below(6) {
            0 => rng.range(0, 6),
            1 => rng.range(0, 64),
            _ => rng.range(0, max_total),
        } as usize;
        let allow_empty = !a.has("--no-empty");
        let sizes = random_split(&mut rng, total, allow_empty);
        let (vols, concat) = volumes(&mut rng, &sizes);
        let mut ops = random_ops(rng.next_u64(), total, max_ops, paths.clone());
        let has_empty = sizes.iter().any(|s| *s == 0);
        bump(if has_empty { "random_with_empty_volume" } else { "random_nonempty" });
        if sizes.first() == Some(&0) { bump("empty_first"); }
        if sizes.last() == Some(&0) && sizes.len() > 1 { bump("empty_last"); }
        if sizes.len() > 2 && sizes[1..sizes.len() - 1].iter().any(|s| *s == 0) { bump("empty_middle"); }
        let files = i % 5 == 4;
        let res = if files {
            bump("file_backed");
            let mut ps = Vec::new();
            for (j, v) in vols.iter().enumerate() {
                let p = tmp.join(format!("r{}.bin.{:03}", i, j + 1));
                std::fs::write(&p, v).unwrap();
                ps.push(p);
            }
            let r = seek_case_files(&ps, &concat, &mut ops);
            for p in ps {
                let _ = std::fs::remove_file(p);
            }
            r
        } else {
            seek_case_cursor(&vols, &concat, &mut ops)
        };
        emit_case(&mut t, case, seek_hdr(&sizes, &concat, "random", if files { "file" } else { "cursor" }), res);
        case += 1;
    }
    // the repository's multi-volume example set (7 non-empty volumes), read through real files
    if let Some(repo) = a.get("--repo") {
        let mut ps: Vec<PathBuf> = (1..=9).map(|i| Path::new(repo).join(format!("tests/test_volume10k.zip.{:03}", i))).filter(|p| p.exists()).collect();
        ps.sort();
        if !ps.is_empty() {
            let vols: Vec<Vec<u8>> = ps.iter().map(|p| std::fs::read(p).unwrap()).collect();
            let sizes: Vec<usize> = vols.iter().map(|v| v.len()).collect();
            let concat = vols.concat();
            for _ in 0..a.num("--repo-cases", 5) {
                let mut ops = random_ops(rng.next_u64(), concat.len(), max_ops, paths.clone());
                let res = seek_case_files(&ps, &concat, &mut ops);
                bump("repo_volume_set");
                emit_case(&mut t, case, seek_hdr(&sizes, &concat, "repo:test_volume10k.zip.00x", "file"), res);
                case += 1;
            }
        }
    }
    t.flush();
    println!("{}", json!({"cases": case, "lines": t.lines, "replayed": replayed, "fast_path": fast, "slow_path": slow, "drift": drift,
        "predicted_not_ok": kf_pred, "paths": *paths.borrow(), "drift_samples": drift_samples}));
}

// ------------------------------------------------------------------------------------------------ extract mode

struct Member {
    comps: Vec<String>,
    dir: bool,
    pre: bool,
    content: Vec<u8>,
}

/// concrete raw member name: components joined with "/", the root marker becomes the absolute prefix
fn concrete_name(comps: &[String], dir: bool, abs_prefix: &Path) -> String {
    let mut s = if comps.first().map(|c| c == "/").unwrap_or(false) {
        let rest: Vec<&str> = comps[1..].iter().map(|c| c.as_str()).collect();
        format!("{}/{}", abs_prefix.display(), rest.join("/"))
    } else {
        comps.join("/")
    };
    if dir {
        s.push('/');
    }
    s
}

/// lexical resolution of `rel` against `base` (no file system access): used to place pre-existing files
fn lexical(base: &Path, rel: &str) -> PathBuf {
    let mut out: Vec<std::ffi::OsString> = Vec::new();
    let joined = base.join(rel);
    for c in joined.components() {
        match c {
            Component::RootDir => out.clear(),
            Component::ParentDir => {
                out.pop();
            }
            Component::CurDir => {}
            Component::Normal(x) => out.push(x.to_os_string()),
            Component::Prefix(_) => {}
        }
    }
    let mut p = PathBuf::from("/");
    for c in out {
        p.push(c);
    }
    p
}

fn walk(dir: &Path, files: &mut Vec<PathBuf>, dirs: &mut Vec<PathBuf>) {
    if let Ok(rd) = std::fs::read_dir(dir) {
        for e in rd.flatten() {
            let p = e.path();
            let md = match std::fs::symlink_metadata(&p) {
                Ok(m) => m,
                Err(_) => continue,
            };
            if md.is_dir() {
                dirs.push(p.clone());
                walk(&p, files, dirs);
            } else {
                files.push(p);
            }
        }
    }
}

fn rel_comps(p: &Path, base: &Path) -> Vec<String> {
    p.strip_prefix(base).map(|r| r.components().map(|c| c.as_os_str().to_string_lossy().to_string()).collect()).unwrap_or_default()
}

struct ExtractEnv {
    base: PathBuf,
    log: slog::Logger,
    cancel: Arc<AtomicBool>,
    run_id: u64,
}

fn write_zip(path: &Path, members: &[Member], names: &[String], case: u64) -> Result<(), String> {
    let f = std::fs::File::create(path).map_err(|e| e.to_string())?;
    let mut w = zip::ZipWriter::new(f);
    for (i, m) in members.iter().enumerate() {
        let method = if (case + i as u64) % 2 == 0 { zip::CompressionMethod::Stored } else { zip::CompressionMethod::Deflated };
        let opts = zip::write::SimpleFileOptions::default().compression_method(method);
        if m.dir {
            w.add_directory(names[i].trim_end_matches('/'), opts).map_err(|e| format!("add_directory {}: {}", names[i], e))?;
        } else {
            w.start_file(names[i].as_str(), opts).map_err(|e| format!("start_file {}: {}", names[i], e))?;
            w.write_all(&m.content).map_err(|e| e.to_string())?;
        }
    }
    w.finish().map_err(|e| e.to_string())?;
    Ok(())
}

fn extract_case(env: &ExtractEnv, t: &mut Trace, case: u64, scn: &Value, rng: &mut Rng, counters: &mut BTreeMap<String, u64>) -> bool {
    let mut bump = |k: &str| *counters.entry(k.to_string()).or_insert(0) += 1;
    let sentinel = env.base.join(format!("s{}", case));
    let _ = std::fs::remove_dir_all(&sentinel);
    let tdir = sentinel.join("t");
    // absolute prefix two levels below `abs`, so that "/../x" can never denote the same place as a climbing relative name
    let abs = sentinel.join("abs").join("r").join("q");
    std::fs::create_dir_all(&tdir).unwrap();
    std::fs::create_dir_all(&abs).unwrap();
    let archdir = env.base.join("arch");
    std::fs::create_dir_all(&archdir).unwrap();

    // the request history: 1..3 patterns issued one after the other against the same archive (same `temp_dirs`)
    let globs: Vec<(String, usize)> = scn["globs"].as_array().unwrap().iter()
        .map(|g| (g["cls"].as_str().unwrap().to_string(), g["k"].as_u64().unwrap() as usize)).collect();
    let cls = globs[0].0.clone();
    let mut members = Vec::new();
    for (i, m) in scn["members"].as_array().unwrap().iter().enumerate() {
        let comps: Vec<String> = serde_json::from_value(m["name"].clone()).unwrap();
        let dir = m["dir"].as_bool().unwrap();
        // empty members are part of the domain: every 4th file member is empty; members of an archive with aliasing names
        // (a.dlt and ./a.dlt denote one path) get clearly different lengths, longer-first and shorter-first by case parity
        let aliased = scn["aliased"].as_bool().unwrap_or(false);
        let len = if dir {
            0
        } else if aliased {
            if case % 2 == 0 { 40 - 14 * i.min(2) } else { 8 + 14 * i.min(2) }
        } else if (case + i as u64) % 4 == 3 {
            0
        } else {
            rng.range(1, 40) as usize
        };
        members.push(Member { comps, dir, pre: m["pre"].as_bool().unwrap(), content: rng.bytes(len) });
    }
    let names: Vec<String> = members.iter().map(|m| concrete_name(&m.comps, m.dir, &abs)).collect();
    let hdr_members: Vec<Value> = members
        .iter()
        .map(|m| json!({"name":m.comps,"dir":m.dir,"pre":m.pre,"len":m.content.len(),"hash":hash31(&m.content)}))
        .collect();
    for m in &members {
        if m.comps.first().map(|c| c == "/").unwrap_or(false) { bump("member_absolute"); }
        if m.comps.iter().any(|c| c == "..") { bump("member_dotdot"); }
        if m.dir { bump("member_dir"); }
        if m.content.is_empty() && !m.dir { bump("member_empty"); }
        if m.pre { bump("member_target_preexists"); }
    }
    for g in &globs {
        bump(&format!("glob_{}", g.0));
    }
    if globs.len() > 1 {
        bump(&format!("history_of_{}_requests", globs.len()));
    }

    // archive file (unique name: list_archive_contents_cached is keyed by the path); every 5th case as 2-3 volumes
    let multi = case % 5 == 4 && cls != "nofilter";
    let zip_path = archdir.join(format!("r{}c{}.zip", env.run_id, case));
    let mode = if cls == "nofilter" { "to_dir" } else { "archives" };
    // versions of the archive: a "nofilter" history extracts version j (same names, SHORTER contents) into the same directory;
    // all other histories use the one archive for every request
    let mut versions: Vec<Vec<Vec<u8>>> = vec![members.iter().map(|m| m.content.clone()).collect()];
    for j in 1..globs.len() {
        let prev = versions[j - 1].clone();
        versions.push(if mode == "to_dir" { prev.iter().map(|c| rng.bytes(c.len() / 2)).collect() } else { prev });
    }
    let vers: Vec<Vec<Value>> = versions.iter().map(|v| v.iter().map(|c| json!({"len": c.len(), "hash": hash31(c)})).collect()).collect();
    let junk = scn["junk"].as_bool().unwrap_or(false);
    if junk { bump("target_dir_prefilled_with_longer_files"); }
    if scn["aliased"].as_bool().unwrap_or(false) { bump("archive_with_aliasing_names"); }
    if mode == "to_dir" && globs.len() > 1 { bump("second_archive_version_into_same_dir"); }
    let hdr = json!({"members":hdr_members,"globs":scn["globs"],"mode":mode,"names":names,"multi_volume":multi,"vers":vers,"junk":junk,
        "aliased":scn["aliased"]});
    if let Err(e) = write_zip(&zip_path, &members, &names, case) {
        // the zip writer refused the archive: nothing of adlt was observed, so no case is recorded (only counted)
        bump("zip_writer_refused");
        eprintln!("zip writer refused case {}: {}", case, e);
        let _ = std::fs::remove_dir_all(&sentinel);
        return false;
    }
    t.ev(json!({"ev":"reset","case":case,"hdr":hdr}));
    let mut open_name = zip_path.clone();
    let mut vol_paths = vec![];
    if multi {
        let bytes = std::fs::read(&zip_path).unwrap();
        let nvol = if bytes.len() >= 3 && case % 2 == 0 { 3 } else { 2 };
        let mut cuts: Vec<usize> = (0..nvol - 1).map(|_| rng.range(1, bytes.len() as u64 - 1) as usize).collect();
        cuts.sort();
        cuts.dedup();
        cuts.push(bytes.len());
        let mut prev = 0;
        for (j, c) in cuts.iter().enumerate() {
            let p = archdir.join(format!("r{}c{}.zip.{:03}", env.run_id, case, j + 1));
            std::fs::write(&p, &bytes[prev..*c]).unwrap();
            prev = *c;
            vol_paths.push(p);
        }
        std::fs::remove_file(&zip_path).unwrap();
        open_name = vol_paths[0].clone();
        bump("multi_volume_archive");
    }

    // pre-existing files the hostile names point at (outside the temp dir that will be created below `tdir`)
    let virtual_tmp = tdir.join(".tmpXXXXXX");
    let mut pre_files: HashMap<PathBuf, Vec<u8>> = HashMap::new();
    for (i, m) in members.iter().enumerate() {
        if m.pre {
            let p = lexical(&virtual_tmp, &names[i]);
            if p.starts_with(&sentinel) && !p.starts_with(&virtual_tmp) {
                if let Some(par) = p.parent() {
                    std::fs::create_dir_all(par).unwrap();
                }
                let content = rng.bytes(7);
                std::fs::write(&p, &content).unwrap();
                pre_files.insert(p, content);
            }
        }
    }
    let (mut f0, mut d0) = (Vec::new(), Vec::new());
    walk(&sentinel, &mut f0, &mut d0);

    std::env::set_var("TMPDIR", &tdir);
    // one temp dir list for the whole history: extract_archives keeps one temp dir per archive and reuses it
    let mut temp_dirs: Vec<(String, tempfile::TempDir)> = Vec::new();
    let mut own_td: Option<tempfile::TempDir> = None;
    if mode == "to_dir" {
        // one target directory for the whole history; optionally every target path holds a LONGER file already
        let td = tempfile::TempDir::new().expect("tempdir");
        if junk {
            for tg in scn["targets"].as_array().unwrap() {
                let comps: Vec<String> = serde_json::from_value(tg.clone()).unwrap();
                if comps.is_empty() {
                    continue;
                }
                let p = comps.iter().fold(td.path().to_path_buf(), |a, c| a.join(c));
                std::fs::create_dir_all(p.parent().unwrap()).unwrap();
                std::fs::write(&p, rng.bytes(64)).unwrap();
            }
        }
        own_td = Some(td);
    }
    let mut version_paths: Vec<PathBuf> = Vec::new();
    for (ri, (gcls, gk)) in globs.iter().enumerate() {
        if mode == "to_dir" && ri > 0 {
            // the next version of the archive (same member names, other contents)
            let vm: Vec<Member> = members.iter().zip(versions[ri].iter()).map(|(m, c)| Member { comps: m.comps.clone(), dir: m.dir, pre: m.pre, content: c.clone() }).collect();
            let vp = archdir.join(format!("r{}c{}v{}.zip", env.run_id, case, ri + 1));
            write_zip(&vp, &vm, &names, case).expect("write next archive version");
            open_name = vp.clone();
            version_paths.push(vp);
        }
        let pattern = match gcls.as_str() {
            "all" => "**/*".to_string(),
            "ext" => "*.dlt".to_string(),
            "dirp" => "d/*".to_string(),
            "exact" => names[*gk - 1].clone(),
            _ => String::new(),
        };
        let existing_before = temp_dirs.first().map(|(_, d)| {
            let (mut f, mut d2) = (Vec::new(), Vec::new());
            walk(d.path(), &mut f, &mut d2);
            f.len()
        }).unwrap_or(0);
        let res = catch(std::panic::AssertUnwindSafe(|| {
            if mode == "archives" {
                let arg = if gcls == "all" && (case + ri as u64) % 3 == 0 { open_name.display().to_string() } else { format!("{}!/{}", open_name.display(), pattern) };
                let reported = extract_archives(arg, &mut temp_dirs, &env.cancel, &env.log);
                (reported.into_iter().map(PathBuf::from).collect::<Vec<_>>(), None)
            } else {
                let tdp = own_td.as_ref().unwrap().path().to_path_buf();
                let chain = SeekableChain::new(vec![std::fs::File::open(&open_name).expect("open zip")]);
                match extract_to_dir(chain, &tdp, None, &HashMap::new(), &env.cancel) {
                    Ok(v) => (v.into_iter().map(|p| tdp.join(p)).collect::<Vec<_>>(), None),
                    Err(e) => (vec![], Some(e.to_string())),
                }
            }
        }));
        match res {
            Err(msg) => {
                t.ev(json!({"ev":"panic","msg":msg}));
                break;
            }
            Ok((reported, err)) => {
                let tempdir: Option<&tempfile::TempDir> = if mode == "archives" { temp_dirs.first().map(|(_, d)| d) } else { own_td.as_ref() };
                let tpath: PathBuf = tempdir.map(|d| d.path().to_path_buf()).unwrap_or_else(|| virtual_tmp.clone());
                let tcanon = std::fs::canonicalize(&tpath).unwrap_or_else(|_| tpath.clone());
                let mut rep = Vec::new();
                for p in &reported {
                    let ps = p.to_string_lossy().to_string();
                    let m = names.iter().position(|n| tpath.join(n).to_string_lossy() == ps).map(|i| i + 1).unwrap_or(0);
                    let canon = std::fs::canonicalize(p).unwrap_or_else(|_| lexical(Path::new("/"), &ps));
                    let inside = canon.starts_with(&tcanon) && canon != tcanon;
                    let data = std::fs::read(p).ok();
                    rep.push(json!({"m":m,"inside":inside,"rel": if inside { rel_comps(&canon, &tcanon) } else { vec![] },
                        "exists": data.is_some() && p.is_file(), "len": data.as_ref().map(|d| d.len()).unwrap_or(0),
                        "hash": data.as_ref().map(|d| hash31(d)).unwrap_or(0), "path": ps}));
                    if !inside { bump("reported_outside"); }
                }
                let (mut tf, mut tdd) = (Vec::new(), Vec::new());
                if tempdir.is_some() {
                    walk(&tpath, &mut tf, &mut tdd);
                }
                tf.sort();
                let tree: Vec<Value> = tf
                    .iter()
                    .map(|p| {
                        let d = std::fs::read(p).unwrap_or_default();
                        json!({"rel":rel_comps(p, &tpath),"len":d.len(),"hash":hash31(&d)})
                    })
                    .collect();
                if !tree.is_empty() { bump("extracted_something"); }
                if ri > 0 && existing_before > 0 && tf.len() > existing_before { bump("later_request_found_files_and_added_more"); }
                if ri > 0 && existing_before > 0 && tf.len() == existing_before && !reported.is_empty() { bump("later_request_served_from_temp_dir"); }
                let (mut f1, mut d1) = (Vec::new(), Vec::new());
                walk(&sentinel, &mut f1, &mut d1);
                let mut created: Vec<String> = Vec::new();
                for p in f1.iter().chain(d1.iter()) {
                    if p.starts_with(&tpath) {
                        continue;
                    }
                    if !f0.contains(p) && !d0.contains(p) {
                        created.push(p.strip_prefix(&sentinel).unwrap().display().to_string());
                    }
                }
                created.sort();
                let mut changed = false;
                for (p, c) in &pre_files {
                    if std::fs::read(p).ok().as_ref() != Some(c) {
                        changed = true;
                    }
                }
                t.ev(json!({"ev":"result","req":ri + 1,"reported":rep,"tree":tree,"outside_created":created,"outside_changed":changed,
                    "err":err.unwrap_or_default(),"temp_dirs":temp_dirs.len()}));
            }
        }
    }
    drop(temp_dirs);
    drop(own_td);
    for p in version_paths {
        let _ = std::fs::remove_file(p);
    }
    let _ = std::fs::remove_file(&zip_path);
    for p in vol_paths {
        let _ = std::fs::remove_file(p);
    }
    let _ = std::fs::remove_dir_all(&sentinel);
    true
}

fn mode_extract(a: &Args) {
    let mut t = Trace::create(&a.str("--out", "trace.ndjson"));
    let seed = a.num("--seed", 1);
    let mut rng = Rng::new(seed);
    let base = PathBuf::from(a.str("--tmp", "/verif/work/C20/tmp")).join("x");
    let _ = std::fs::remove_dir_all(&base);
    std::fs::create_dir_all(&base).unwrap();
    let env = ExtractEnv {
        base: base.clone(),
        log: slog::Logger::root(slog::Discard, slog::o!()),
        cancel: Arc::new(AtomicBool::new(false)),
        run_id: seed ^ (std::process::id() as u64) << 20,
    };
    let mut counters = BTreeMap::new();
    let first = a.num("--first-case", 0);
    let mut case = first;
    if let Some(f) = a.get("--scenarios") {
        let scns = read_ndjson(f);
        // --take n: a seeded sample of n scenarios (0 = all)
        let take = a.num("--take", 0) as usize;
        let mut idx: Vec<usize> = (0..scns.len()).collect();
        if take > 0 && take < scns.len() {
            for i in 0..take {
                let j = i + rng.below((scns.len() - i) as u64) as usize;
                idx.swap(i, j);
            }
            idx.truncate(take);
            idx.sort();
        }
        for i in idx {
            if extract_case(&env, &mut t, case, &scns[i], &mut rng, &mut counters) {
                case += 1;
            }
        }
    }
    t.flush();
    let _ = std::fs::remove_dir_all(&base);
    println!("{}", json!({"cases": case - first, "lines": t.lines, "paths": counters}));
}

// ------------------------------------------------------------------------------------------------ volumes mode

/// a stored zip with the given members
fn small_zip(path: &Path, members: &[(String, Vec<u8>)]) {
    let f = std::fs::File::create(path).unwrap();
    let mut w = zip::ZipWriter::new(f);
    for (n, c) in members {
        let opts = zip::write::SimpleFileOptions::default().compression_method(zip::CompressionMethod::Stored);
        w.start_file(n.as_str(), opts).unwrap();
        w.write_all(c).unwrap();
    }
    w.finish().unwrap();
}

/// split `bytes` into n non-empty pieces
fn split_n(rng: &mut Rng, bytes: &[u8], n: usize) -> Vec<Vec<u8>> {
    let mut cuts: Vec<usize> = Vec::new();
    while cuts.len() < n - 1 {
        let c = rng.range(1, bytes.len() as u64 - 1) as usize;
        if !cuts.contains(&c) {
            cuts.push(c);
        }
    }
    cuts.sort();
    cuts.push(bytes.len());
    let mut out = Vec::new();
    let mut prev = 0;
    for c in cuts {
        out.push(bytes[prev..c].to_vec());
        prev = c;
    }
    out
}

/// a real multi-volume archive next to a look-alike neighbour: volume discovery and extract_archives on the opened volume
fn mode_volumes(a: &Args) {
    use adlt::utils::unzip::{archive_supported_fileexts, search_dir_for_multi_volume_archive};
    let mut t = Trace::create(&a.str("--out", "trace.ndjson"));
    let seed = a.num("--seed", 1);
    let mut rng = Rng::new(seed);
    let base = PathBuf::from(a.str("--tmp", "/verif/work/C20/tmp")).join("v");
    let _ = std::fs::remove_dir_all(&base);
    std::fs::create_dir_all(&base).unwrap();
    let log = slog::Logger::root(slog::Discard, slog::o!());
    let cancel = Arc::new(AtomicBool::new(false));
    let sevenz = archive_supported_fileexts().iter().any(|e| *e == ".7z.001");
    let mut counters: BTreeMap<String, u64> = BTreeMap::new();
    let mut case = 0u64;
    let run_id = seed ^ (std::process::id() as u64) << 20;
    for scn in read_ndjson(a.get("--scenarios").expect("--scenarios")) {
        let mut bump = |k: &str| *counters.entry(k.to_string()).or_insert(0) += 1;
        // unique directory per case AND per run (list_archive_contents_cached is keyed by the archive path)
        let cdir = base.join(format!("r{}c{}", run_id, case));
        let adir = cdir.join("arch");
        let tdir = cdir.join("t");
        std::fs::create_dir_all(&adir).unwrap();
        std::fs::create_dir_all(&tdir).unwrap();
        let entries = scn["dir"].as_array().unwrap();
        let open = scn["open"].as_u64().unwrap() as usize;
        // the neighbour is the LARGER archive in two of three cases (then the end of the wrong stream is the neighbour's directory)
        let big = case % 3 != 2;
        let lens: [usize; 4] = [
            rng.range(10, 60) as usize,
            rng.range(1, 40) as usize,
            (if big { rng.range(300, 600) } else { rng.range(1, 8) }) as usize,
            (if big { rng.range(200, 400) } else { rng.range(1, 8) }) as usize,
        ];
        let archs: Vec<Vec<(String, Vec<u8>)>> = vec![
            vec![("new1.dlt".to_string(), rng.bytes(lens[0])), ("sub/new2.dlt".to_string(), rng.bytes(lens[1]))],
            vec![("old1.dlt".to_string(), rng.bytes(lens[2])), ("sub/old2.dlt".to_string(), rng.bytes(lens[3]))],
        ];
        let mut names: Vec<String> = Vec::new();
        for arch in 1..=2usize {
            let mine: Vec<&Value> = entries.iter().filter(|e| e["arch"].as_u64() == Some(arch as u64)).collect();
            if mine.is_empty() {
                continue;
            }
            let zp = cdir.join(format!("whole{}.bin", arch));
            small_zip(&zp, &archs[arch - 1]);
            let bytes = std::fs::read(&zp).unwrap();
            let _ = std::fs::remove_file(&zp);
            let pieces = split_n(&mut rng, &bytes, mine.len());
            // pieces are assigned in the order of the volume numbers
            let mut order: Vec<&Value> = mine.clone();
            order.sort_by_key(|e| e["num"].as_u64().unwrap());
            for (e, piece) in order.iter().zip(pieces.iter()) {
                let name = format!("{}{}.{:0w$}", e["prefix"].as_str().unwrap(), e["ext"].as_str().unwrap(), e["num"].as_u64().unwrap(),
                    w = e["nd"].as_u64().unwrap() as usize);
                std::fs::write(adir.join(&name), piece).unwrap();
            }
        }
        let mut dir_hdr = Vec::new();
        for e in entries {
            let name = format!("{}{}.{:0w$}", e["prefix"].as_str().unwrap(), e["ext"].as_str().unwrap(), e["num"].as_u64().unwrap(),
                w = e["nd"].as_u64().unwrap() as usize);
            let mut h = e.clone();
            h["name"] = json!(name);
            dir_hdr.push(h);
            names.push(name);
        }
        let dec = &entries[entries.len() - 1];
        bump(&format!("neighbour_{}{}_{}digits", dec["prefix"].as_str().unwrap(), dec["ext"].as_str().unwrap(), dec["nd"]));
        bump(if entries[open - 1]["arch"].as_u64() == Some(1) { "opened_real_archive" } else { "opened_neighbour" });
        if big { bump("neighbour_is_larger"); } else { bump("neighbour_is_smaller"); }
        let archs_hdr: Vec<Vec<Value>> = archs.iter().map(|ms| ms.iter().map(|(n, c)| json!({"name": n, "len": c.len(), "hash": hash31(c)})).collect()).collect();
        t.ev(json!({"ev":"reset","case":case,"hdr":{"dir":dir_hdr,"open":open,"sevenz":sevenz,"archs":archs_hdr}}));
        let opened = adir.join(&names[open - 1]);
        std::env::set_var("TMPDIR", &tdir);
        let res = catch(std::panic::AssertUnwindSafe(|| {
            let found = search_dir_for_multi_volume_archive(&opened);
            let found_idx: Vec<usize> = found.iter().map(|p| names.iter().position(|n| adir.join(n) == *p).map(|i| i + 1).unwrap_or(0)).collect();
            let mut temp_dirs: Vec<(String, tempfile::TempDir)> = Vec::new();
            let reported = extract_archives(opened.display().to_string(), &mut temp_dirs, &cancel, &log);
            let tpath = temp_dirs.first().map(|(_, d)| d.path().to_path_buf());
            let mut rep = Vec::new();
            for r in &reported {
                let p = PathBuf::from(r);
                let rel = tpath.as_ref().and_then(|tp| p.strip_prefix(tp).ok().map(|x| x.display().to_string()));
                let (mut arch, mut m) = (0usize, 0usize);
                if let Some(rel) = &rel {
                    for (ai, ms) in archs.iter().enumerate() {
                        if let Some(mi) = ms.iter().position(|(n, _)| n == rel) {
                            arch = ai + 1;
                            m = mi + 1;
                        }
                    }
                }
                let data = std::fs::read(&p).unwrap_or_default();
                rep.push(json!({"arch":arch,"m":m,"inside":rel.is_some(),"len":data.len(),"hash":hash31(&data),"path":r}));
            }
            (found_idx, rep)
        }));
        match res {
            Ok((found_idx, rep)) => {
                t.ev(json!({"ev":"search","found":found_idx}));
                t.ev(json!({"ev":"extract","reported":rep}));
                t.ev(json!({"ev":"end"}));
            }
            Err(msg) => t.ev(json!({"ev":"panic","msg":msg})),
        }
        let _ = std::fs::remove_dir_all(&cdir);
        case += 1;
    }
    t.flush();
    let _ = std::fs::remove_dir_all(&base);
    println!("{}", json!({"cases": case, "lines": t.lines, "paths": counters}));
}

// ------------------------------------------------------------------------------------------------ clone mode

/// harness-owned stream with a known length (HasLength is adlt's trait; Cursor is foreign: orphan rule)
struct LenCursor(Cursor<Vec<u8>>);
impl Read for LenCursor {
    fn read(&mut self, buf: &mut [u8]) -> std::io::Result<usize> {
        self.0.read(buf)
    }
}
impl Seek for LenCursor {
    fn seek(&mut self, pos: SeekFrom) -> std::io::Result<u64> {
        self.0.seek(pos)
    }
}
impl adlt::utils::cloneable_seekable_reader::HasLength for LenCursor {
    fn len(&self) -> u64 {
        self.0.get_ref().len() as u64
    }
}

#[derive(Clone, Debug)]
struct COp {
    c: usize, // clone, 1-based
    op: Op,
    clone_from: usize, // > 0: clone c is dropped and made anew from this clone
}

/// run operations on `nc` clones of the wrapper `w0`; one reference position per clone (follows the observed results)
fn run_clone_ops<W: Read + Seek + Clone>(w0: W, concat: &[u8], nc: usize, small: bool, next: &mut dyn FnMut(&[u64]) -> Option<COp>) -> Vec<Value> {
    let mut clones: Vec<W> = (0..nc).map(|_| w0.clone()).collect();
    drop(w0);
    let mut rpos: Vec<u64> = vec![0; nc];
    let mut evs = Vec::new();
    while let Some(o) = next(&rpos) {
        let ci = o.c - 1;
        if o.clone_from > 0 {
            let src = clones[o.clone_from - 1].clone();
            clones[ci] = src;
            rpos[ci] = rpos[o.clone_from - 1];
            evs.push(json!({"ev":"clone","c":o.c,"a":o.clone_from}));
            continue;
        }
        match &o.op {
            Op::Read(n) => {
                let mut buf = vec![0u8; *n];
                let pos = rpos[ci] as usize;
                match clones[ci].read(&mut buf) {
                    Ok(k) => {
                        let got = &buf[..k.min(buf.len())];
                        let lo = pos.min(concat.len());
                        let hi = (pos + k).min(concat.len());
                        let want = &concat[lo..hi];
                        evs.push(json!({"ev":"read","c":o.c,"n":n,"k":k,"eq":got == want,"hash":hash31(got),"ref_hash":hash31(want),
                            "data": if small { got.to_vec() } else { vec![] }}));
                        rpos[ci] = (pos + k) as u64;
                    }
                    Err(e) => evs.push(json!({"ev":"ioerr","c":o.c,"op":"read","msg":e.to_string()})),
                }
            }
            Op::Start(_) | Op::Cur(_) | Op::End(_) => {
                let (from, a, sf) = match &o.op {
                    Op::Start(p) => ("start", *p as i64, SeekFrom::Start(*p)),
                    Op::Cur(d) => ("cur", *d, SeekFrom::Current(*d)),
                    Op::End(d) => ("end", *d, SeekFrom::End(*d)),
                    _ => unreachable!(),
                };
                // the reference cursor of this clone performs the same seek (targets are inside [0, len] by construction)
                let mut reference = Cursor::new(concat);
                reference.set_position(rpos[ci]);
                let _ = reference.seek(sf);
                rpos[ci] = reference.position();
                match clones[ci].seek(sf) {
                    Ok(r) => evs.push(json!({"ev":"seek","c":o.c,"from":from,"a":a,"ok":true,"r":r})),
                    Err(e) => evs.push(json!({"ev":"seek","c":o.c,"from":from,"a":a,"ok":false,"r":-1,"msg":e.to_string()})),
                }
            }
            Op::Rte => {
                let pos = (rpos[ci] as usize).min(concat.len());
                let mut v = Vec::new();
                // (bounded, see run_ops)
                match std::io::Read::take(&mut clones[ci], concat.len() as u64 + 64).read_to_end(&mut v) {
                    Ok(k) => {
                        let hi = (pos + k).min(concat.len());
                        let want = &concat[pos..hi];
                        evs.push(json!({"ev":"rte","c":o.c,"k":k,"eq": v == want,"hash":hash31(&v),"ref_hash":hash31(want)}));
                        rpos[ci] = (pos + k) as u64;
                    }
                    Err(e) => evs.push(json!({"ev":"ioerr","c":o.c,"op":"rte","msg":e.to_string()})),
                }
            }
        }
    }
    evs
}

fn clone_case(below: &str, vols: &[Vec<u8>], concat: &[u8], nc: usize, next: &mut dyn FnMut(&[u64]) -> Option<COp>) -> Result<Vec<Value>, String> {
    use adlt::utils::cloneable_seekable_reader::verif_new_cloneable_seekable_reader as wrap;
    let small = concat.len() <= 64;
    catch(std::panic::AssertUnwindSafe(|| {
        if below == "cursor" {
            run_clone_ops(wrap(LenCursor(Cursor::new(concat.to_vec()))), concat, nc, small, next)
        } else {
            let chain = SeekableChain::new(vols.iter().map(|v| Cursor::new(v.clone())).collect::<Vec<_>>());
            run_clone_ops(wrap(chain), concat, nc, small, next)
        }
    }))
}

fn clone_hdr(concat: &[u8], nc: usize, below: &str, sizes: &[usize], src: &str) -> Value {
    json!({"total":concat.len(),"nc":nc,"concat": if concat.len() <= 64 { concat.to_vec() } else { vec![] },"below":below,"sizes":sizes,"src":src})
}

/// the cloneable reader of unzip.rs over a cursor / over a multi-volume chain: TLC paths (prediction fast path) + seeded random
fn mode_clone(a: &Args) {
    let mut t = Trace::create(&a.str("--out", "trace.ndjson"));
    let mut rng = Rng::new(a.num("--seed", 1));
    let sample = a.num("--sample", 200);
    let mut case = 0u64;
    let (mut replayed, mut fast, mut slow, mut drift) = (0u64, 0u64, 0u64, 0u64);
    let paths: std::rc::Rc<std::cell::RefCell<BTreeMap<String, u64>>> = Default::default();
    let bump = |k: &str| *paths.borrow_mut().entry(k.to_string()).or_insert(0) += 1;
    let mut drift_samples = Vec::new();
    if let Some(f) = a.get("--scenarios") {
        let scns = read_ndjson(f);
        let every = (scns.len() as u64 / sample.max(1)).max(1);
        for (si, scn) in scns.iter().enumerate() {
            let total = scn["total"].as_u64().unwrap() as usize;
            let nc = scn["nc"].as_u64().unwrap() as usize;
            let mut ops: Vec<COp> = Vec::new();
            let mut pred: Vec<i64> = Vec::new();
            for o in scn["ops"].as_array().unwrap() {
                let av = o["a"].as_i64().unwrap();
                let c = o["c"].as_u64().unwrap() as usize;
                let (op, cf) = match o["op"].as_str().unwrap() {
                    "read" => (Op::Read(av as usize), 0),
                    "start" => (Op::Start(av as u64), 0),
                    "cur" => (Op::Cur(av), 0),
                    "end" => (Op::End(av), 0),
                    "clone" => (Op::Rte, av as usize),
                    x => panic!("op {}", x),
                };
                ops.push(COp { c, op, clone_from: cf });
                pred.push(o["r"].as_i64().unwrap());
            }
            let concat = rng.bytes(total);
            // every path runs over a plain cursor (the model's underlying stream: prediction fast path); every 8th one also over a
            // multi-volume chain (short reads at volume boundaries are legal, so these runs are always validated by TLC instead)
            for below in ["cursor", "chain"] {
                if below == "chain" && si % 8 != 0 {
                    continue;
                }
                let sizes = if below == "chain" { random_split(&mut rng, total, true) } else { vec![total] };
                let mut vols = Vec::new();
                let mut off = 0;
                for s in &sizes {
                    vols.push(concat[off..off + s].to_vec());
                    off += s;
                }
                // replay; stop issuing the path once an observed position differs from the predicted one (see from_list)
                let mut i = 0usize;
                let mut exp: Vec<i64> = vec![0; nc];
                let ops2 = ops.clone();
                let pred2 = pred.clone();
                let mut next = |rp: &[u64]| -> Option<COp> {
                    if i >= ops2.len() || (0..nc).any(|c| rp[c] as i64 != exp[c]) {
                        return None;
                    }
                    let o = ops2[i].clone();
                    if o.clone_from > 0 {
                        exp[o.c - 1] = exp[o.clone_from - 1];
                    } else {
                        exp[o.c - 1] = match o.op {
                            Op::Read(_) => exp[o.c - 1] + pred2[i],
                            _ => pred2[i],
                        };
                    }
                    i += 1;
                    Some(o)
                };
                let res = clone_case(below, &vols, &concat, nc, &mut next);
                replayed += 1;
                bump(&format!("tlc_path_over_{}", below));
                let same = match &res {
                    Ok(evs) => {
                        evs.len() == pred.len()
                            && evs.iter().zip(pred.iter()).all(|(e, p)| match e["ev"].as_str().unwrap() {
                                "read" => e["k"].as_i64() == Some(*p) && e["eq"].as_bool() == Some(true),
                                "seek" => e["ok"].as_bool() == Some(true) && e["r"].as_i64() == Some(*p),
                                "clone" => true,
                                _ => false,
                            })
                    }
                    Err(_) => false,
                };
                if !same && below == "cursor" {
                    drift += 1;
                    if drift_samples.len() < 3 {
                        drift_samples.push(json!({"scenario": scn, "observed": res.clone().unwrap_or_default()}));
                    }
                }
                if same && below == "cursor" && (si as u64 % every != 0) {
                    fast += 1;
                    continue;
                }
                slow += 1;
                emit_case(&mut t, case, clone_hdr(&concat, nc, below, &sizes, "tlc"), res);
                case += 1;
            }
        }
    }
    // seeded random: 1..3 clones, interleaved operations, re-cloning, over a cursor or a multi-volume chain (incl. empty volumes)
    let n_random = a.num("--random", 0);
    let max_ops = a.num("--max-ops", 120);
    for _ in 0..n_random {
        let total = match rng.below(4) { 0 => rng.range(0, 6), 1 => rng.range(0, 64), _ => rng.range(0, a.num("--max-total", 300)) } as usize;
        let nc = rng.range(1, 3) as usize;
        let below = if rng.chance(1, 2) { "cursor" } else { "chain" };
        let sizes = if below == "chain" { random_split(&mut rng, total, true) } else { vec![total] };
        let (vols, concat) = volumes(&mut rng, &sizes);
        let nops = rng.range(1, max_ops);
        let mut r2 = Rng::new(rng.next_u64());
        let mut done = 0u64;
        let p2 = paths.clone();
        let total_i = total as i64;
        let mut next = |rp: &[u64]| -> Option<COp> {
            if done >= nops {
                return None;
            }
            done += 1;
            let mut b = |k: &str| *p2.borrow_mut().entry(k.to_string()).or_insert(0) += 1;
            let c = r2.range(1, nc as u64) as usize;
            let pos = rp[c - 1] as i64;
            let x = r2.below(100);
            if x < 8 && nc > 1 {
                let mut src = r2.range(1, nc as u64) as usize;
                if src == c { src = src % nc + 1; }
                b("rnd_reclone");
                return Some(COp { c, op: Op::Rte, clone_from: src });
            }
            let op = if x < 50 {
                b("rnd_read");
                Op::Read(match r2.below(4) { 0 => 0, 1 => 1, 2 => r2.range(0, 8) as usize, _ => r2.range(0, total as u64 + 5) as usize })
            } else if x < 65 {
                b("rnd_seek_start");
                // re-visiting the positions other clones (and earlier reads) left behind is what exposes a stale belief
                if r2.chance(1, 2) { Op::Start(rp[r2.below(nc as u64) as usize].min(total as u64)) } else { Op::Start(r2.range(0, total as u64)) }
            } else if x < 80 {
                let lo = -pos.min(4);
                let hi = (total_i - pos).min(4).max(0);
                b("rnd_seek_cur");
                Op::Cur(lo + r2.below((hi - lo + 1) as u64) as i64)
            } else if x < 92 {
                b("rnd_seek_end");
                Op::End(-(r2.range(0, (total as u64).min(5)) as i64))
            } else {
                b("rnd_read_to_end");
                Op::Rte
            };
            Some(COp { c, op, clone_from: 0 })
        };
        bump(&format!("rnd_over_{}", below));
        if nc > 1 { bump("rnd_several_clones"); }
        let res = clone_case(below, &vols, &concat, nc, &mut next);
        emit_case(&mut t, case, clone_hdr(&concat, nc, below, &sizes, "random"), res);
        case += 1;
    }
    t.flush();
    println!("{}", json!({"cases": case, "lines": t.lines, "replayed": replayed, "fast_path": fast, "slow_path": slow, "drift": drift,
        "paths": *paths.borrow(), "drift_samples": drift_samples}));
}

fn main() {
    quiet_panics();
    let a = Args::from_env();
    match a.str("--mode", "seek").as_str() {
        "seek" => mode_seek(&a),
        "extract" => mode_extract(&a),
        "volumes" => mode_volumes(&a),
        "clone" => mode_clone(&a),
        m => panic!("unknown mode {}", m),
    }
}
